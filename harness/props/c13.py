"""C13 — thumbprints are the RFC 7638 value and depend only on the public key; auto kid."""
import base64, hashlib, json, os, glob, random, copy
import lib
from lib import c_hex, c_str, c_Z, c_N, c_bool, c_list, c_opt, c_pv, c_exn, exn_class

# --------------------------------------------------------------------------
# independent reference of RFC 7638 (written from the RFC text; hashlib +
# manual construction of the JSON text; no json.dumps, no joserfc)
# --------------------------------------------------------------------------
# RFC 7638 3.2 / RFC 8037 2: required members, in lexicographic order
REQ = {"RSA": ["e", "kty", "n"], "EC": ["crv", "kty", "x", "y"], "oct": ["k", "kty"], "OKP": ["crv", "kty", "x"]}
CLS_IDX = {"oct": 0, "RSA": 1, "EC": 2, "OKP": 3}
ALPHA = set("ABCDEFGHIJKLMNOPQRSTUVWXYZabcdefghijklmnopqrstuvwxyz0123456789-_")
EC_CURVES = {"P-256": ("SECP256R1", 32, 256), "P-384": ("SECP384R1", 48, 384), "P-521": ("SECP521R1", 66, 521),
             "secp256k1": ("SECP256K1", 32, 256)}
EC_NATIVE_NAMES = {"secp256r1": "P-256", "secp384r1": "P-384", "secp521r1": "P-521", "secp256k1": "secp256k1"}
OKP_CURVES = ["Ed25519", "Ed448", "X25519", "X448"]
DIGEST_LEN = {"sha256": 43, "sha384": 64, "sha512": 86}


def b64u(b: bytes) -> str:
    return base64.urlsafe_b64encode(b).decode("ascii").rstrip("=")


def b64u_dec(s: str) -> bytes:
    return base64.urlsafe_b64decode(s + "=" * (-len(s) % 4))


def int_min(n: int) -> str:
    return b64u(n.to_bytes((n.bit_length() + 7) // 8, "big"))


def ref_canonical(jwk: dict) -> bytes:
    names = REQ[jwk["kty"]]
    assert names == sorted(names)
    parts = []
    for nm in names:
        v = jwk[nm]
        if not isinstance(v, str) or not all(32 <= ord(ch) < 127 and ch not in '"\\' for ch in v):
            raise AssertionError("reference: member %r needs escaping: %r" % (nm, v))
        parts.append('"' + nm + '":"' + v + '"')
    return ("{" + ",".join(parts) + "}").encode("utf-8")


def ref_thumbprint(jwk: dict, digest: str = "sha256") -> str:
    h = {"sha256": hashlib.sha256, "sha384": hashlib.sha384, "sha512": hashlib.sha512}[digest]
    return b64u(h(ref_canonical(jwk)).digest())


def okp_crv(native) -> str:
    n = type(native).__name__
    for c in OKP_CURVES:
        if n.startswith(c):
            return c
    raise AssertionError(n)


def ref_jwk(native) -> dict:
    """RFC 7517/7518/8037 JWK of a native key (pyca object or bytes), built
    from the key numbers only (EC coordinates in their full length)."""
    from cryptography.hazmat.primitives.asymmetric import rsa, ec
    from cryptography.hazmat.primitives import serialization as S
    if isinstance(native, bytes):
        return {"kty": "oct", "k": b64u(native)}
    if isinstance(native, rsa.RSAPrivateKey):
        p = native.private_numbers()
        return {"kty": "RSA", "n": int_min(p.public_numbers.n), "e": int_min(p.public_numbers.e),
                "d": int_min(p.d), "p": int_min(p.p), "q": int_min(p.q), "dp": int_min(p.dmp1),
                "dq": int_min(p.dmq1), "qi": int_min(p.iqmp)}
    if isinstance(native, rsa.RSAPublicKey):
        p = native.public_numbers()
        return {"kty": "RSA", "n": int_min(p.n), "e": int_min(p.e)}
    if isinstance(native, (ec.EllipticCurvePrivateKey, ec.EllipticCurvePublicKey)):
        crv = EC_NATIVE_NAMES[native.curve.name]
        L = EC_CURVES[crv][1]
        if isinstance(native, ec.EllipticCurvePrivateKey):
            pn = native.private_numbers()
            pub = pn.public_numbers
            return {"kty": "EC", "crv": crv, "x": b64u(pub.x.to_bytes(L, "big")), "y": b64u(pub.y.to_bytes(L, "big")),
                    "d": b64u(pn.private_value.to_bytes(L, "big"))}
        pub = native.public_numbers()
        return {"kty": "EC", "crv": crv, "x": b64u(pub.x.to_bytes(L, "big")), "y": b64u(pub.y.to_bytes(L, "big"))}
    crv = okp_crv(native)
    if hasattr(native, "private_bytes"):
        return {"kty": "OKP", "crv": crv,
                "x": b64u(native.public_key().public_bytes(S.Encoding.Raw, S.PublicFormat.Raw)),
                "d": b64u(native.private_bytes(S.Encoding.Raw, S.PrivateFormat.Raw, S.NoEncryption()))}
    return {"kty": "OKP", "crv": crv, "x": b64u(native.public_bytes(S.Encoding.Raw, S.PublicFormat.Raw))}


def native_from_jwk(jwk: dict):
    """pyca key (or bytes) from an RFC-conformant JWK, without joserfc."""
    from cryptography.hazmat.primitives.asymmetric import rsa, ec, ed25519, ed448, x25519, x448
    i = lambda s: int.from_bytes(b64u_dec(s), "big")
    kty = jwk["kty"]
    if kty == "oct":
        return b64u_dec(jwk["k"])
    if kty == "RSA":
        pub = rsa.RSAPublicNumbers(i(jwk["e"]), i(jwk["n"]))
        if "d" not in jwk:
            return pub.public_key()
        return rsa.RSAPrivateNumbers(i(jwk["p"]), i(jwk["q"]), i(jwk["d"]), i(jwk["dp"]), i(jwk["dq"]), i(jwk["qi"]),
                                     pub).private_key()
    if kty == "EC":
        curve = getattr(ec, EC_CURVES[jwk["crv"]][0])()
        pub = ec.EllipticCurvePublicNumbers(i(jwk["x"]), i(jwk["y"]), curve)
        if "d" not in jwk:
            return pub.public_key()
        return ec.EllipticCurvePrivateNumbers(i(jwk["d"]), pub).private_key()
    if kty == "OKP":
        mods = {"Ed25519": ed25519, "Ed448": ed448, "X25519": x25519, "X448": x448}
        m = mods[jwk["crv"]]
        if "d" in jwk:
            return getattr(m, jwk["crv"] + "PrivateKey").from_private_bytes(b64u_dec(jwk["d"]))
        return getattr(m, jwk["crv"] + "PublicKey").from_public_bytes(b64u_dec(jwk["x"]))
    raise AssertionError(kty)


def public_of(native):
    return native if isinstance(native, bytes) or not hasattr(native, "public_key") else native.public_key()


def is_private_native(native):
    return isinstance(native, bytes) or hasattr(native, "public_key")


def serialize(native, enc: str, private: bool, fmt: str = "pkcs8") -> bytes:
    from cryptography.hazmat.primitives import serialization as S
    e = S.Encoding.PEM if enc == "pem" else S.Encoding.DER
    if private:
        f = S.PrivateFormat.PKCS8 if fmt == "pkcs8" else S.PrivateFormat.TraditionalOpenSSL
        return native.private_bytes(e, f, S.NoEncryption())
    return public_of(native).public_bytes(e, S.PublicFormat.SubjectPublicKeyInfo)


# --------------------------------------------------------------------------
# running the implementation
# --------------------------------------------------------------------------
def call(f, *a, **k):
    try:
        return ("ok", f(*a, **k))
    except BaseException as e:  # noqa
        return ("err", e)


def c_res(r, okf):
    if r[0] == "ok":
        return "(Ok %s)" % okf(r[1])
    return "(Err %s)" % c_exn(exn_class(r[1]))


def c_dict(d):
    return c_list(["(%s, %s)" % (c_str(k), c_pv(v)) for k, v in d.items()])


class HashRecorder:
    """Stands in for the name `hashlib` inside joserfc.rfc7638: records every
    hashlib.new(name, data).digest() the implementation computes."""

    def __init__(self):
        self.calls = []

    def new(self, name, data=b"", **kw):
        try:
            h = hashlib.new(name, data, **kw)
        except BaseException as e:
            self.calls.append((name, bytes(data), ("err", e)))
            raise
        self.calls.append((name, bytes(data), ("ok", h.digest())))
        return h

    def take(self):
        c, self.calls = self.calls, []
        return c

    def __getattr__(self, n):
        return getattr(hashlib, n)


def c_oracle(calls):
    seen, out = set(), []
    for name, data, r in calls:
        if not isinstance(name, str) or (name, data) in seen:
            continue
        seen.add((name, data))
        out.append("(%s, %s, %s)" % (c_str(name), c_hex(data), c_res(r, c_hex)))
    return c_list(out)


def cls_of(kty):
    from joserfc.jwk import OctKey, RSAKey, ECKey, OKPKey
    return {"oct": OctKey, "RSA": RSAKey, "EC": ECKey, "OKP": OKPKey}[kty]


def kty_of(native):
    return ref_jwk(public_of(native))["kty"]


def build_key(native, v):
    """Construct a joserfc key from the native key in the representation
    described by the variant v.  -> (key, (dict, params) as handed to import or
    None, [the caller-owned mutable objects handed to the library])"""
    from joserfc.jwk import JWKRegistry
    kty = kty_of(native)
    cls = cls_of(kty)
    opts = copy.deepcopy(v.get("opts"))        # the application's own objects: the variant itself is never handed out
    r = v["repr"]
    if r in ("native", "native-pub"):
        nk = native if r == "native" else public_of(native)
        return cls(nk, nk, opts), None, [opts]            # what generate_key / import of bytes does
    if r in ("dict", "dict-pub", "dict-d-only"):
        d = ref_jwk(native if r != "dict-pub" else public_of(native))
        if r == "dict-d-only":
            d = {k: x for k, x in d.items() if k in ("kty", "n", "e", "d")}
        params = opts
        if v.get("opts_in_dict") and opts:
            d.update(opts)
            params = None
        items = list(d.items())
        mode = v.get("order_mode", "shuffle")
        if mode == "shuffle":
            random.Random(v.get("order", 0)).shuffle(items)
        elif mode == "reversed":
            items.reverse()
        elif mode == "sorted":
            items.sort(key=lambda kv: kv[0])
        elif mode == "kty-first":
            items = [kv for kv in items if kv[0] == "kty"] + [kv for kv in items if kv[0] != "kty"]
        elif mode == "kty-last":
            items = [kv for kv in items if kv[0] != "kty"] + [kv for kv in items if kv[0] == "kty"]
        d = dict(items)
        given = copy.deepcopy(d)
        gparams = copy.deepcopy(params)
        if v.get("via_registry"):
            return JWKRegistry.import_key(d, parameters=params), (given, gparams), [d, params]
        return cls.import_key(d, params), (given, gparams), [d, params]
    if r == "bytes":
        return cls.import_key(native, opts), None, [opts]
    enc, private = r.split("-")[0], not r.endswith("-pub")
    data = serialize(native, enc, private, v.get("fmt", "pkcs8"))
    if v.get("as_str") and enc == "pem":
        data = data.decode("ascii")
    if v.get("via_registry"):
        return JWKRegistry.import_key(data, kty, opts), None, [opts]
    return cls.import_key(data, opts), None, [opts]


# --------------------------------------------------------------------------
# aliasing / stability over histories: whatever the application does with the
# objects the library returned to it (or with the objects it handed in), the
# key keeps its thumbprint, kid and members
# --------------------------------------------------------------------------
def scramble(obj, rng, kty):
    """deep-edit an object the application owns"""
    if isinstance(obj, list):
        rng.choice([lambda: obj.append("scrambled"), obj.clear, lambda: obj.insert(0, "deriveBits")])()
        return
    if not isinstance(obj, dict):
        return
    for x in list(obj.values()):
        if isinstance(x, (list, dict)):
            scramble(x, rng, None)
    if kty is None:
        obj["scrambled"] = 1
        return
    req = [m for m in REQ[kty] if m in obj]
    for op in rng.sample(range(8), rng.randrange(2, 6)):
        if op == 0:
            obj.pop("kid", None)
        elif op == 1:
            obj["kid"] = "scrambled-kid"
        elif op == 2 and req:
            obj.pop(rng.choice(req), None)
        elif op == 3 and req:
            obj[rng.choice(req)] = "AAAA"
        elif op == 4:
            obj[rng.choice(["use", "alg", "zzz", "key_ops"])] = rng.choice(["enc", "none", ["sign"]])
        elif op == 5:
            obj.pop("d", None)
        elif op == 6:
            obj.clear()
        else:
            obj["kty"] = "oct" if kty != "oct" else "RSA"


def scalars(d):
    return {k: x for k, x in d.items() if not isinstance(x, (list, dict))}


EXPORT_WAYS = ["as_dict()", "as_dict(None)", "as_dict(True)", "as_dict(False)", "as_dict(**params)", "as_dict(True,**params)",
               "as_dict(False,**params)", "dict(key)", "key[member]", "key.get(member)", "KeySet.as_dict()", "KeySet.as_dict(False)",
               "KeySet.as_dict(**params)", "inputs"]


def export_via(K, how, owned, ks):
    """-> list of application-owned objects obtained from the key in the way `how`"""
    p = {"alg": "x-alg", "zz": ["1"]}
    if how == "as_dict()":
        return [K.as_dict()]
    if how == "as_dict(None)":
        return [K.as_dict(None)]
    if how == "as_dict(True)":
        return [K.as_dict(True)] if K.is_private else []
    if how == "as_dict(False)":
        return [K.as_dict(False)]
    if how == "as_dict(**params)":
        return [K.as_dict(**p), p]
    if how == "as_dict(True,**params)":
        return [K.as_dict(True, **p), p] if K.is_private else []
    if how == "as_dict(False,**params)":
        return [K.as_dict(False, **p), p]
    if how == "dict(key)":
        return [dict(K), {k: K[k] for k in K.keys()}]
    if how == "key[member]":
        return [K[k] for k in list(K.keys()) if isinstance(K[k], (list, dict))]
    if how == "key.get(member)":
        return [K.get(k) for k in ("key_ops", "ext", "x5c") if isinstance(K.get(k), (list, dict))]
    if how == "KeySet.as_dict()":
        o = ks.as_dict()
        return [o] + list(o["keys"])
    if how == "KeySet.as_dict(False)":
        o = ks.as_dict(False)
        return [o] + list(o["keys"])
    if how == "KeySet.as_dict(**params)":
        o = ks.as_dict(**p)
        return [o] + list(o["keys"]) + [p]
    if how == "inputs":
        return [o for o in owned if o is not None]
    raise AssertionError(how)


def history_probe(K, how, owned, rng, want, reps=3):
    """export in the way `how`, scramble what came back, re-inspect the key; `reps` times.
    -> (hard problem or None, nested-container difference or None)"""
    from joserfc.jwk import KeySet
    kty = K.key_type
    K.ensure_kid()
    kid1, t1 = K.kid, K.thumbprint()
    snap = copy.deepcopy(K.as_dict())
    ks = KeySet([K])
    soft = None
    for rep in range(reps):
        objs = export_via(K, how, owned, ks)
        for o in objs:
            scramble(o, rng, kty if isinstance(o, dict) and "keys" not in o else None)
            if isinstance(o, dict) and "keys" in o and isinstance(o["keys"], list):
                rng.choice([o["keys"].clear, lambda: o["keys"].append({"kty": "oct", "k": "AAAA"}), lambda: None])()
        t2, kid2, fresh = K.thumbprint(), K.kid, K.as_dict()
        if t2 != t1 or (want is not None and t2 != want):
            return "thumbprint changed from %r to %r (RFC 7638 value %r)" % (t1, t2, want), soft
        if kid2 != kid1 or fresh.get("kid") != kid1:
            return "kid changed from %r to %r (exported: %r)" % (kid1, kid2, fresh.get("kid")), soft
        if scalars(fresh) != scalars(snap) or set(fresh) != set(snap) or list(fresh) != list(snap):
            return "a fresh as_dict() differs from the one before the export: %r -> %r" % (scalars(snap), scalars(fresh)), soft
        g = call(ks.get_by_kid, kid1)
        if g[0] != "ok" or g[1] is not K:
            return "KeySet.get_by_kid(%r) no longer finds the key: %r" % (kid1, g[1]), soft
        if fresh != snap and soft is None:
            soft = "nested member changed: %r -> %r" % ({k: x for k, x in snap.items() if fresh.get(k) != x},
                                                        {k: x for k, x in fresh.items() if snap.get(k) != x})
            snap = copy.deepcopy(fresh)
    return None, soft


def c_native(native):
    """Coq term of type C13Thumb.native for a pyca key / bytes."""
    from cryptography.hazmat.primitives.asymmetric import rsa, ec
    j = ref_jwk(native)
    if isinstance(native, bytes):
        return "(NOct %s)" % c_hex(native)
    if isinstance(native, rsa.RSAPrivateKey):
        p = native.private_numbers()
        return "(NRSA %s %s (Some (%s, %s, %s, %s, %s, %s)))" % tuple(
            c_Z(x) for x in (p.public_numbers.n, p.public_numbers.e, p.d, p.p, p.q, p.dmp1, p.dmq1, p.iqmp))
    if isinstance(native, rsa.RSAPublicKey):
        p = native.public_numbers()
        return "(NRSA %s %s None)" % (c_Z(p.n), c_Z(p.e))
    if isinstance(native, ec.EllipticCurvePrivateKey):
        p = native.private_numbers()
        return "(NEC %s %s %s %s (Some %s))" % (c_str(j["crv"]), c_N(native.curve.key_size),
                                                c_Z(p.public_numbers.x), c_Z(p.public_numbers.y), c_Z(p.private_value))
    if isinstance(native, ec.EllipticCurvePublicKey):
        p = native.public_numbers()
        return "(NEC %s %s %s %s None)" % (c_str(j["crv"]), c_N(native.curve.key_size), c_Z(p.x), c_Z(p.y))
    if "d" in j:
        return "(NOKP %s %s (Some %s))" % (c_str(j["crv"]), c_hex(b64u_dec(j["x"])), c_hex(b64u_dec(j["d"])))
    return "(NOKP %s %s None)" % (c_str(j["crv"]), c_hex(b64u_dec(j["x"])))


# --------------------------------------------------------------------------
# generators
# --------------------------------------------------------------------------
KIDS = ["", "k1", "2011-04-29", "bilbo.baggins@hobbiton.example", "0", "kid with space", "é", "NzbLsXh8uDCcd-6MNwXF4W_7noWXFZAfHkxZsRGC9Xs"]


def gen_opts(rng, allow_kid=True):
    o = {}
    if allow_kid and rng.random() < 0.45:
        o["kid"] = rng.choice(KIDS)
    if rng.random() < 0.4:
        use = rng.choice(["sig", "enc"])
        o["use"] = use
        if rng.random() < 0.5:
            ops = ["sign", "verify"] if use == "sig" else ["encrypt", "decrypt", "wrapKey", "unwrapKey", "deriveKey", "deriveBits"]
            o["key_ops"] = rng.sample(ops, rng.randrange(1, len(ops) + 1))
    elif rng.random() < 0.3:
        o["key_ops"] = rng.sample(["sign", "verify", "encrypt", "decrypt"], rng.randrange(1, 4))
    if rng.random() < 0.4:
        o["alg"] = rng.choice(["HS256", "RS256", "ES256", "EdDSA", "dir", "whatever"])
    if rng.random() < 0.3:
        o[rng.choice(["foo", "ext", "x5t", "zzz", "a", "~", "exp", "D", "X", "N", "K"])] = rng.choice(["bar", "v", "q\"uote", "é\U0001F600"])
    if rng.random() < 0.1:
        o["ext"] = rng.choice([True, 5, None, ["a", 1], {"a": "b"}])
    items = list(o.items())
    rng.shuffle(items)
    return dict(items)


def gen_variants(rng, native, n):
    kty = kty_of(native)
    private = is_private_native(native)
    if kty == "oct":
        reprs = ["dict", "bytes", "native"]
    elif private:
        reprs = ["native", "native-pub", "dict", "dict-pub", "pem", "pem-pub", "der", "der-pub"]
        if kty == "RSA":
            reprs.append("dict-d-only")
    else:
        reprs = ["native-pub", "dict-pub", "pem-pub", "der-pub"]
    out = []
    picks = list(reprs)
    rng.shuffle(picks)
    while len(picks) < n:
        picks.append(rng.choice(reprs))
    for r in picks[:max(n, 1)]:
        v = {"repr": r, "order": rng.randrange(1 << 30),
             "order_mode": rng.choice(["shuffle", "shuffle", "reversed", "sorted", "kty-first", "kty-last"])}
        if rng.random() < 0.7:
            v["opts"] = gen_opts(rng)
            if not v["opts"]:
                v["opts"] = None if rng.random() < 0.5 else {}
        else:
            v["opts"] = None
        v["opts_in_dict"] = rng.random() < 0.5
        v["via_registry"] = rng.random() < 0.3
        if r.startswith("pem"):
            v["as_str"] = rng.random() < 0.3
        if r in ("pem", "der") and kty in ("RSA", "EC") and rng.random() < 0.3:
            v["fmt"] = "traditional"
        out.append(v)
    return out


def det_ec_key(rng, crv):
    """EC key derived from ctx.rng (uniform scalar by rejection: the library refuses 0 and values >= the group order)"""
    from cryptography.hazmat.primitives.asymmetric import ec
    curve = getattr(ec, EC_CURVES[crv][0])()
    while True:
        d = rng.getrandbits(EC_CURVES[crv][2])
        try:
            return ec.derive_private_key(d, curve)
        except ValueError:
            continue


def short_kind(native, crv):
    """which of x, y, d have a leading zero octet at full length"""
    L = EC_CURVES[crv][1]
    p = native.private_numbers()
    out = []
    for nm, val in (("x", p.public_numbers.x), ("y", p.public_numbers.y), ("d", p.private_value)):
        if val.to_bytes(L, "big")[0] == 0:
            out.append(nm)
    return out


def det_okp_key(rng, crv):
    from cryptography.hazmat.primitives.asymmetric import ed25519, ed448, x25519, x448
    m = {"Ed25519": (ed25519.Ed25519PrivateKey, 32), "Ed448": (ed448.Ed448PrivateKey, 57),
         "X25519": (x25519.X25519PrivateKey, 32), "X448": (x448.X448PrivateKey, 56)}[crv]
    return m[0].from_private_bytes(bytes(rng.randrange(256) for _ in range(m[1])))


RFC7638_EXAMPLE = {
    "kty": "RSA",
    "n": "0vx7agoebGcQSuuPiLJXZptN9nndrQmbXEps2aiAFbWhM78LhWx4cbbfAAtVT86zwu1RK7aPFFxuhDR1L6tSoc_BJECPebWKRXjBZCiFV4n3oknjhMstn64tZ_2W-5JsGY4Hc5n9yBXArwl93lqt7_RN5w6Cf0h4QyQ5v-65YGjQR0_FDW2QvzqY368QQMicAtaSqzs8KJZgnYb9c7d0zgdAZHzu6qMQvRL5hajrn1n91CbOpbISD08qNLyrdkt-bFTWhAI4vMQFh6WeZu0fM4lFd2NcRwr3XPksINHaQ-G_xBniIqbw0Ls1jF44-csFCur-kEgU8awapJzKnqDKgw",
    "e": "AQAB", "alg": "RS256", "kid": "2011-04-29"}
RFC7638_THUMB = "NzbLsXh8uDCcd-6MNwXF4W_7noWXFZAfHkxZsRGC9Xs"
RFC8037_A3 = {"kty": "OKP", "crv": "Ed25519", "x": "11qYAYKxCrfVS_7TyWQHOg7hcvPapiMlrwIaaPcHURo"}
RFC8037_A3_THUMB = "kPrK_qmxVWaYVA9wwBF6Iuo3vVzz7TxHCTwXBygrS4k"


def fixture_materials():
    """(label, native) for the JWK / PEM fixtures of the repository's tests, if present"""
    from cryptography.hazmat.primitives import serialization as S
    out = []
    d = os.path.join(lib.REPO, "tests", "keys")
    for p in sorted(glob.glob(os.path.join(d, "*.json"))):
        try:
            j = json.load(open(p))
        except Exception:
            continue
        if not isinstance(j, dict) or j.get("kty") not in REQ:
            continue
        if j["kty"] == "RSA" and "d" in j and "p" not in j:
            continue
        try:
            nk = native_from_jwk(j)
        except Exception:
            continue
        out.append((os.path.basename(p), nk, j))
    for p in sorted(glob.glob(os.path.join(d, "*.pem"))):
        raw = open(p, "rb").read()
        try:
            if b"PRIVATE" in raw and b"OPENSSH" not in raw and b"ENCRYPTED" not in raw:
                nk = S.load_pem_private_key(raw, None)
            elif b"PUBLIC" in raw:
                nk = S.load_pem_public_key(raw)
            else:
                continue
            kty_of(nk)
        except Exception:
            continue
        out.append((os.path.basename(p), nk, None))
    return out


JSON_ALPHABETS = [
    "ab\"\\/ \n\r\t\b\f\x00\x1f\x7f",
    "AZaz09-_",
    "éÿĀ߿ࠀ￿\U00010000\U0001F600\U0010ffff",
    "\ud800􏰀\udfff a",
    "\x01\x02\x0b\x0e\x1b~}|{",
]


def gen_json_values(ctx):
    rng = ctx.rng
    out = []
    cps = list(range(0, 0x101)) + [0x7FF, 0x800, 0xFFF, 0x1000, 0xD7FF, 0xD800, 0xDBFF, 0xDC00, 0xDFFF, 0xE000, 0xFFFD,
                                   0xFFFE, 0xFFFF, 0x10000, 0x10001, 0x103FF, 0x10400, 0x1F600, 0xFFFFF, 0x100000, 0x10FFFF]
    for cp in cps:
        out.append(chr(cp))
    out += ["", "kty", "AQAB", "P-256", 'a"b', "a\\b", "\\u0041"]
    for _ in range(ctx.scale(500, 8000)):
        al = rng.choice(JSON_ALPHABETS) if rng.random() < 0.8 else "".join(JSON_ALPHABETS)
        out.append("".join(rng.choice(al) for _ in range(rng.randrange(0, 12))))
    for _ in range(ctx.scale(60, 1500)):
        out.append("".join(chr(rng.choice([rng.randrange(0, 0x80), rng.randrange(0x80, 0x800), rng.randrange(0x800, 0x10000),
                                            rng.randrange(0x10000, 0x110000)])) for _ in range(rng.randrange(1, 8))))
    strs = ["", "a", "é", "q\"", "\n", "\U0001F600", "kty", "\ud800"]

    def val(depth):
        k = rng.randrange(9 if depth < 3 else 6)
        if k <= 1:
            return rng.choice(strs)
        if k == 2:
            return rng.choice([0, 1, -1, 9, 10, 11, 99, 100, -100, 255, 2 ** 31, 2 ** 63, 2 ** 64, -2 ** 70, 10 ** 30, 10 ** 30 - 1,
                               rng.getrandbits(rng.randrange(1, 300)), -rng.getrandbits(rng.randrange(1, 100))])
        if k == 3:
            return rng.choice([True, False])
        if k == 4:
            return None
        if k == 5:
            return rng.choice([b"", b"x"]) if rng.random() < 0.2 else rng.choice(strs)
        if k <= 7:
            return [val(depth + 1) for _ in range(rng.randrange(0, 4))]
        return {rng.choice(strs): val(depth + 1) for _ in range(rng.randrange(0, 4))}
    for _ in range(ctx.scale(400, 5000)):
        out.append(val(0))
    return out


def gen_thumb_calls(ctx):
    """direct calls of rfc7638.thumbprint(dict, fields, digest): valid and malformed"""
    rng = ctx.rng
    names = ["kty", "k", "n", "e", "crv", "x", "y", "d", "kid", "", "é", "K", "kt", "ktyy", "a\"b", "\U0001F600", "~", " "]
    svals = ["oct", "RSA", "AQAB", "P-256", "Zm9v", "", "a\"b", "back\\slash", "é", "\n", "\x7f", "\U0001F600", "\ud83d", "x" * 70]
    out = []
    for _ in range(ctx.scale(500, 8000)):
        d = {}
        for _ in range(rng.randrange(0, 7)):
            r = rng.random()
            d[rng.choice(names)] = (rng.choice(svals) if r < 0.8 else
                                    rng.choice([None, True, 0, -5, 2 ** 70, ["a", "b"], [], {}, {"z": "1", "a": "2"}, b"raw"]))
        items = list(d.items())
        rng.shuffle(items)
        d = dict(items)
        present = list(d.keys())
        fields = []
        for _ in range(rng.randrange(0, 6)):
            fields.append(rng.choice(present) if present and rng.random() < 0.85 else rng.choice(names))
        dg = rng.choice(["sha256"] * 6 + ["sha384", "sha512", "sha1", "md5", "SHA256", "nope", "", "sha3_256"])
        out.append((d, fields, dg))
    return out


# --------------------------------------------------------------------------
# entry points: every public way to a thumbprint / kid that the library exports
# now must be one this check drives (fail closed on anything else)
# --------------------------------------------------------------------------
KNOWN_ENTRIES = {
    "rfc7638": {"thumbprint"},
    "key": {"thumbprint", "ensure_kid", "kid", "thumbprint_digest_method", "generate_key(auto_kid)"},
    "KeySet": {"__init__", "as_dict", "get_by_kid", "import_key_set", "generate_key_set", "keys"},
    "JWKRegistry": {"generate_key(auto_kid)", "import_key"},
}


def entry_points(ctx, dist):
    import inspect
    import joserfc.rfc7638 as M
    import joserfc.jwk as J
    from joserfc.jwk import OctKey, RSAKey, ECKey, OKPKey, KeySet, JWKRegistry
    found, unknown = [], []

    def seen(group, name):
        found.append(group + "." + name)
        if name not in KNOWN_ENTRIES[group]:
            unknown.append(group + "." + name)
    for n, o in vars(M).items():
        if not n.startswith("_") and (inspect.isfunction(o) or inspect.isclass(o)) and getattr(o, "__module__", "") == M.__name__:
            seen("rfc7638", n)
    for cls in (OctKey, RSAKey, ECKey, OKPKey):
        for n in dir(cls):
            if n.startswith("_"):
                continue
            o = inspect.getattr_static(cls, n)
            f = getattr(o, "__func__", o)
            has_auto = inspect.isfunction(f) and "auto_kid" in inspect.signature(f).parameters
            if "kid" in n.lower() or "thumb" in n.lower():
                seen("key", n)
            elif has_auto:
                seen("key", n + "(auto_kid)")
    for cls, group in ((KeySet, "KeySet"), (JWKRegistry, "JWKRegistry")):
        for n in list(vars(cls)):
            o = inspect.getattr_static(cls, n)
            f = getattr(o, "__func__", o)
            if not inspect.isfunction(f) or (n.startswith("_") and n != "__init__"):
                continue
            src = inspect.getsource(f)
            has_auto = "auto_kid" in inspect.signature(f).parameters
            if has_auto:
                seen(group, n + "(auto_kid)")
            elif "kid" in n.lower() or "thumb" in n.lower() or "ensure_kid" in src or "thumbprint" in src or n in ("import_key", "generate_key_set", "import_key_set"):
                seen(group, n)
    for n in dir(J):
        if not n.startswith("_") and ("thumb" in n.lower()) and n not in ("thumbprint",):
            unknown.append("jwk." + n)
    dist["entry_points"] = len(found)
    ctx.coverage["entry_points_found"] = sorted(set(found))
    ctx.coverage["entry_points_not_covered"] = sorted(set(unknown))
    for u in sorted(set(unknown)):
        ctx.violation({"kind": "entry-point-not-covered", "entry": u},
                      "the library exports %s, a way to obtain a thumbprint / kid that this check does not drive" % u,
                      {"entry": u, "no_failing_input_found": True, "broken": "harness entry-point table (fail closed)"})


# --------------------------------------------------------------------------
# the run
# --------------------------------------------------------------------------
def run(ctx):
    import joserfc.jwk  # noqa  registers secp256k1
    from joserfc.jwk import OctKey, RSAKey, ECKey, OKPKey, KeySet, JWKRegistry
    import joserfc.rfc7638 as M
    from cryptography.hazmat.primitives.asymmetric import rsa
    import time as _time
    _t0 = _time.time()
    ok, log = ctx.prove(extra_targets=["model/C13Cases.vo"])
    _t1 = _time.time()
    rng = ctx.rng

    cases, meta = [], []

    def add(term, m):
        cases.append(term)
        meta.append(m)

    dist = {"json": 0, "sha256": 0, "thumb_direct": 0, "thumb_direct_err": 0, "keys": 0, "key_variants": 0, "ec_short": 0,
            "kid_flows": 0, "histories": 0, "digest_matrix": 0, "subclass_constructors": 0, "generate_kid_matrix": 0, "import_key_set": 0, "entry_points": 0, "keysets": 0, "generated": 0, "digest_variants": 0, "spec": 0, "fixtures": 0}
    per_repr = {}

    # ---- reference self-check on the RFC vectors (a failure here is a harness bug)
    if ref_thumbprint(RFC7638_EXAMPLE) != RFC7638_THUMB or ref_thumbprint(RFC8037_A3) != RFC8037_A3_THUMB:
        raise RuntimeError("the independent RFC 7638 reference does not reproduce the RFC vectors")

    rec = HashRecorder()
    saved_hashlib = M.hashlib
    M.hashlib = rec
    try:
        # ---- A. json.dumps model vs json.dumps
        for v in gen_json_values(ctx):
            r = call(json.dumps, v, ensure_ascii=True, separators=(",", ":"))
            ctx.note_case(("json", repr(v)))
            dist["json"] += 1
            add("CJson %s %s" % (c_pv(v), c_res(r, c_str)), ("json", repr(v)[:80]))

        # ---- A2. the SHA-256 of model/C13Sha256.v (used by the Examples of props/C13.v) vs hashlib
        sha_lens = (list(range(0, 131)) + [191, 192, 193, 500]) if not ctx.quick else \
            [0, 1, 2, 3, 31, 54, 55, 56, 57, 62, 63, 64, 65, 100, 118, 119, 120, 121, 127, 128, 129, 200]
        sha_msgs = [bytes(rng.randrange(256) for _ in range(n)) for n in sha_lens]
        sha_msgs += [ref_canonical(RFC7638_EXAMPLE), ref_canonical(RFC8037_A3)]
        sha_msgs += [bytes(rng.randrange(256) for _ in range(rng.randrange(0, 300))) for _ in range(ctx.scale(15, 300))]
        for m in sha_msgs:
            ctx.note_case(("sha256", m))
            dist["sha256"] += 1
            add("CSha %s %s" % (c_hex(m), c_hex(hashlib.sha256(m).digest())), ("sha256-model", m.hex()[:40]))

        # ---- B. rfc7638.thumbprint directly (valid and malformed dictionaries / field lists / digests)
        for d, fields, dg in gen_thumb_calls(ctx):
            rec.take()
            r = call(M.thumbprint, d, list(fields), dg)
            calls = rec.take()
            ctx.note_case(("thumb", repr(d), tuple(fields), dg))
            dist["thumb_direct" if r[0] == "ok" else "thumb_direct_err"] += 1
            add("CThumb %s %s %s %s %s" % (c_oracle(calls), c_dict(d), c_list([c_str(f) for f in fields]), c_str(dg),
                                           c_res(r, c_str)), ("thumbprint", repr(d)[:80], fields, dg))
            if r[0] == "ok":
                t = r[1]
                plainv = all(isinstance(d[f], str) and all(32 <= ord(ch) < 127 and ch not in '"\\' for ch in d[f] + f)
                             for f in fields)
                if plainv and dg in DIGEST_LEN:
                    body = "{" + ",".join('"%s":"%s"' % (f, d[f]) for f in sorted(set(fields))) + "}"
                    want = b64u(hashlib.new(dg, body.encode()).digest())
                    if t != want:
                        ctx.violation({"kind": "thumbprint-function-value"},
                                      "rfc7638.thumbprint(%r, %r, %r) = %r, RFC 7638 value is %r" % (d, fields, dg, t, want),
                                      {"fn": "thumbprint", "dict": d, "fields": fields, "digest": dg, "want": want})
                if not isinstance(t, str) or any(ch not in ALPHA for ch in t):
                    ctx.violation({"kind": "thumbprint-not-base64url"},
                                  "rfc7638.thumbprint output %r is not unpadded base64url" % (t,),
                                  {"fn": "thumbprint", "dict": repr(d), "fields": fields, "digest": dg})

        # ---- C. keys of every kind
        materials = []       # (label, native)
        lens = list(range(1, 65)) if ctx.quick else list(range(1, 129))
        for ln in lens:
            materials.append(("oct-%d" % ln, bytes(rng.randrange(256) for _ in range(ln))))
        materials.append(("oct-foo", b"foo"))
        rsa_gen = rsa.generate_private_key(65537, 2048)
        materials.append(("rsa-2048-generated", rsa_gen))
        materials.append(("rsa-1024-e3-generated", rsa.generate_private_key(3, 1024)))
        if not ctx.quick:
            materials.append(("rsa-1536-generated", rsa.generate_private_key(65537, 1536)))
            materials.append(("rsa-3072-e3", rsa.generate_private_key(3, 3072)))
        materials.append(("rfc7638-3.1", native_from_jwk(RFC7638_EXAMPLE)))
        materials.append(("rfc8037-A.3", native_from_jwk(RFC8037_A3)))
        for crv in EC_CURVES:
            for i in range(ctx.scale(5, 40)):
                materials.append(("ec-%s-%d" % (crv, i), det_ec_key(rng, crv)))
            # forced short coordinates: search until x or y (and separately d) has a leading zero octet
            found_xy, found_d, tries = 0, 0, 0
            want_xy, want_d = ctx.scale(2, 12), ctx.scale(1, 4)
            while (found_xy < want_xy or found_d < want_d) and tries < ctx.scale(4000, 40000):
                tries += 1
                k = det_ec_key(rng, crv)
                sk = short_kind(k, crv)
                if ("x" in sk or "y" in sk) and found_xy < want_xy:
                    found_xy += 1
                    materials.append(("ec-%s-short-%s" % (crv, "".join(sk)), k))
                    dist["ec_short"] += 1
                elif "d" in sk and found_d < want_d:
                    found_d += 1
                    materials.append(("ec-%s-short-%s" % (crv, "".join(sk)), k))
                    dist["ec_short"] += 1
            if found_xy < want_xy:
                ctx.notes.append("short-coordinate search for %s found only %d keys in %d tries" % (crv, found_xy, tries))
        for crv in OKP_CURVES:
            for i in range(ctx.scale(4, 25)):
                materials.append(("okp-%s-%d" % (crv, i), det_okp_key(rng, crv)))
        for label, nk, j in fixture_materials():
            materials.append(("fixture:" + label, nk))
            dist["fixtures"] += 1
            if j is not None:
                # the fixture JWK itself, verbatim (only when it is the RFC-conformant form of its key)
                rj = ref_jwk(nk)
                if all(j.get(m) == rj[m] for m in REQ[j["kty"]]):
                    r = call(lambda: JWKRegistry.import_key(dict(j)).thumbprint())
                    want = ref_thumbprint(rj)
                    ctx.note_case(("fixture-literal", label))
                    if r[0] != "ok" or r[1] != want:
                        ctx.violation({"kind": "thumbprint-mismatch", "kty": j["kty"], "repr": "fixture-jwk"},
                                      "thumbprint of tests/keys/%s is %r, RFC 7638 value is %r" % (label, r[1], want),
                                      {"fn": "key", "jwk": j, "variant": {"repr": "literal"}, "want": want})

        keys_for_sets = []
        soft = {"nested": 0, "late_params_probes": 0, "late_params_affected": 0, "noncanonical_probes": 0,
                "noncanonical_accepted_other_thumbprint": 0, "noncanonical_accepted_same_thumbprint": 0, "noncanonical_refused": 0}
        rsa_budget = {True: ctx.scale(1, 6), False: ctx.scale(2, 6)}

        def check_key(label, native, v):
            """one key in one representation: thumbprint vs the reference, kid flow, exports"""
            kty = kty_of(native)
            pub_jwk = ref_jwk(public_of(native))
            want = ref_thumbprint(pub_jwk)
            full_jwk = ref_jwk(native)
            rp = {"fn": "key", "jwk": full_jwk, "variant": v, "want": want, "label": label}
            sig = {"kty": kty, "repr": v["repr"]}
            rec.take()
            b = call(build_key, native, v)
            if b[0] != "ok":
                ctx.violation(dict(sig, kind="key-construction-raises"),
                              "constructing %s as %s raised %r" % (label, v, b[1]), rp)
                return None
            K, given, owned = b[1]
            # .kid read first, before thumbprint / ensure_kid (must not freeze "no kid")
            kid0 = call(lambda: K.kid) if rng.random() < 0.6 else None
            exp0 = (v.get("opts") or {}).get("kid")
            if kid0 is not None and kid0 != ("ok", exp0):
                ctx.violation(dict(sig, kind="kid-before-ensure"),
                              "kid of the fresh key %s (%s) is %r, expected %r (the given one, or None)" % (label, v["repr"], kid0[1], exp0), rp)
            rec.take()
            r = call(K.thumbprint)
            calls = rec.take()
            dist["key_variants"] += 1
            per_repr[v["repr"]] = per_repr.get(v["repr"], 0) + 1
            ctx.note_case(("key", label, json.dumps(v, sort_keys=True, default=str)))
            if r[0] != "ok":
                ctx.violation(dict(sig, kind="thumbprint-raises"), "thumbprint() of %s as %s raised %r" % (label, v, r[1]), rp)
                return None
            t = r[1]
            dv = dict(K.dict_value)
            ci = CLS_IDX[kty]
            add("CKeyThumb %s %s %s %s" % (c_oracle(calls), c_N(ci), c_dict(dv), c_res(r, c_str)), ("Key.thumbprint", label, v))
            if given is not None:
                add("CMkDict %s %s %s %s" % (c_N(ci), c_dict(given[0]), c_opt(given[1], c_dict), c_dict(dv)),
                    ("dict_value", label, v))
            elif v["repr"] in ("native", "native-pub", "bytes"):
                e = call(K.binding.convert_raw_key_to_dict, K.raw_value, K.is_private)
                # the integer codec model divides bit by bit: few RSA exports (2048-bit numbers) per run
                rsa_budget[K.is_private] -= (kty == "RSA")
                if kty != "RSA" or rsa_budget[K.is_private] >= 0:
                    add("CExport %s %s" % (c_native(K.raw_value), c_res(e, c_dict)), ("export", label, v))
                if e[0] == "ok":
                    add("CMkDict %s %s %s %s" % (c_N(ci), c_dict(e[1]), c_opt(v.get("opts"), c_dict), c_dict(dv)),
                        ("dict_value", label, v))
            # -- direct oracle: the RFC 7638 value of the public key
            if t != want:
                ctx.violation(dict(sig, kind="thumbprint-mismatch"),
                              "thumbprint of %s (%s) is %r, RFC 7638 value of its public key is %r" % (label, v["repr"], t, want), rp)
            if not isinstance(t, str) or len(t) != 43 or any(ch not in ALPHA for ch in t):
                ctx.violation(dict(sig, kind="thumbprint-not-base64url"), "thumbprint %r is not 43 base64url characters" % (t,), rp)
            # the exported required members are the RFC-conformant ones
            for m in REQ[kty]:
                if dv.get(m) != pub_jwk[m]:
                    ctx.violation(dict(sig, kind="member-encoding", member=m),
                                  "member %s of %s (%s) is %r, RFC form is %r" % (m, label, v["repr"], dv.get(m), pub_jwk[m]), rp)
            # -- kid flow
            dist["kid_flows"] += 1
            given_kid = dv.get("kid") if "kid" in dv else None
            before = dict(K.dict_value)
            rec.take()
            e1 = call(K.ensure_kid)
            calls = rec.take()
            after = dict(K.dict_value)
            add("CEnsureKid %s %s %s %s" % (c_oracle(calls), c_N(ci), c_dict(before),
                                            c_res(("ok", after) if e1[0] == "ok" else e1, c_dict)), ("ensure_kid", label, v))
            if e1[0] != "ok":
                ctx.violation(dict(sig, kind="ensure-kid-raises"), "ensure_kid() raised %r" % (e1[1],), rp)
                return K
            kid1 = K.kid
            if "kid" in before:
                if kid1 != given_kid or after != before:
                    ctx.violation(dict(sig, kind="kid-overwritten"),
                                  "ensure_kid() changed the existing kid %r of %s to %r" % (given_kid, label, kid1), rp)
            else:
                if kid1 != want:
                    ctx.violation(dict(sig, kind="kid-not-thumbprint"),
                                  "auto kid of %s (%s) is %r, RFC 7638 thumbprint is %r" % (label, v["repr"], kid1, want), rp)
                if {k: x for k, x in after.items() if k != "kid"} != before:
                    ctx.violation(dict(sig, kind="ensure-kid-side-effect"), "ensure_kid() changed other members of %s" % label, rp)
            # stability: repeated ensure_kid / as_dict / thumbprint
            K.ensure_kid()
            exports = []
            for private, params in ((None, {}), (False, {}), (True, {}), (None, {"use": "sig"}), (False, {"alg": "x", "zz": "1"})):
                dvk = dict(K.dict_value)
                ex = call(K.as_dict, private, **params)
                if rng.random() < (0.2 if ctx.quick else 0.6):
                    add("CAsDict %s %s %s %s %s %s" % (c_N(ci), c_bool(K.is_private), c_dict(dvk),
                                                       c_opt(private, c_bool), c_dict(params), c_res(ex, c_dict)),
                        ("as_dict", label, v, private, params))
                if ex[0] == "ok":
                    if not params:
                        exports.append((private, ex[1]))
                    if ex[1].get("kid") != kid1:
                        ctx.violation(dict(sig, kind="kid-not-exported"),
                                      "as_dict(private=%r) of %s has kid %r, key has %r" % (private, label, ex[1].get("kid"), kid1), rp)
                elif not (private is True and not K.is_private):
                    ctx.violation(dict(sig, kind="as-dict-raises"), "as_dict(private=%r) raised %r" % (private, ex[1]), rp)
            K.ensure_kid()
            t2 = call(K.thumbprint)
            if K.kid != kid1 or t2 != ("ok", t):
                ctx.violation(dict(sig, kind="kid-unstable"),
                              "kid / thumbprint of %s changed across repeated ensure_kid/as_dict: %r -> %r, %r -> %r" % (
                                  label, kid1, K.kid, t, t2[1]), rp)
            # private vs public view through the library's own exports
            for private, ex in exports:
                if kty == "oct" and private is False:
                    continue
                r2 = call(lambda: JWKRegistry.import_key(dict(ex)))
                if r2[0] != "ok":
                    ctx.violation(dict(sig, kind="export-not-importable"),
                                  "as_dict(private=%r) of %s is not importable: %r" % (private, label, r2[1]), rp)
                    continue
                t3 = call(r2[1].thumbprint)
                r2[1].ensure_kid()
                if t3 != ("ok", want) or r2[1].kid != kid1:
                    ctx.violation(dict(sig, kind="thumbprint-view-mismatch"),
                                  "key re-imported from as_dict(private=%r) of %s has thumbprint %r / kid %r, expected %r / %r" % (
                                      private, label, t3[1], r2[1].kid, want, kid1), rp)
            # -- aliasing / stability over histories: export, scramble what came back (or what was handed in), re-inspect
            for how in EXPORT_WAYS:
                hseed = rng.randrange(1 << 30)
                hp = call(history_probe, K, how, owned, random.Random(hseed), want)
                dist["histories"] += 1
                ctx.note_case(("history", label, v["repr"], how, hseed))
                hrp = dict(rp, fn="history", how=how, hseed=hseed)
                if hp[0] != "ok":
                    ctx.violation(dict(sig, kind="history-raises", via=how), "export/edit/re-inspect via %s raised %r" % (how, hp[1]), hrp)
                    break
                if hp[1][0] is not None:
                    ctx.violation(dict(sig, kind="export-aliases-key", via=how),
                                  "after editing the object obtained from %s via %s: %s" % (label, how, hp[1][0]), hrp)
                    break
                if hp[1][1] is not None:
                    soft["nested"] += 1
                    soft.setdefault("nested_witness", {"label": label, "repr": v["repr"], "via": how, "what": hp[1][1][:300]})
            # (recorded, not a violation) a parameters dict edited by the caller BEFORE the key first materialises its dict_value
            if v["repr"] in ("native", "native-pub", "bytes", "pem", "der", "pem-pub", "der-pub") and v.get("opts"):
                b2 = call(build_key, native, v)
                if b2[0] == "ok":
                    K2, _, own2 = b2[1]
                    own2[0]["kid"] = "edited-later"
                    for m in REQ[kty]:
                        if m != "kty":
                            own2[0][m] = "AAAA"
                    soft["late_params_probes"] += 1
                    r5 = call(lambda: (K2.thumbprint(), K2.kid))
                    if r5 != ("ok", (want, v["opts"].get("kid"))):
                        soft["late_params_affected"] += 1
                        soft.setdefault("late_params_witness", {"label": label, "repr": v["repr"], "opts": v["opts"],
                                                                "thumbprint_kid_after_edit": repr(r5[1]), "rfc7638": want})
            return K

        for label, native in materials:
            dist["keys"] += 1
            kty = kty_of(native)
            n = ctx.scale(3, 10)
            if "short" in label or label.startswith("rfc"):
                n = ctx.scale(5, 12)
            if label.startswith("fixture:"):
                n = ctx.scale(2 if kty == "RSA" else 3, 10)
            if kty == "oct":
                n = ctx.scale(2, 6)
            if label.startswith("rsa-"):
                n = ctx.scale(7, 30)
            for v in gen_variants(rng, native, n):
                check_key(label, native, v)
            # CSpec: the Coq Spec printer against the reference text
            pj = ref_jwk(public_of(native))
            if rng.random() < (0.5 if ctx.quick else 1.0):
                dist["spec"] += 1
                add("CSpec %s %s %s" % ('"%s"%%string' % kty, c_dict(pj), c_hex(ref_canonical(pj))), ("spec", label))

        # ---- D. digest choice through subclasses (the shared classes are not touched)
        for label, native in [m for m in materials if rng.random() < (0.12 if ctx.quick else 0.5)]:
            kty = kty_of(native)
            for dg in ("sha384", "sha512"):
                sub = type("Sub" + dg, (cls_of(kty),), {"thumbprint_digest_method": dg})
                pj = ref_jwk(public_of(native))
                want = ref_thumbprint(pj, dg)
                rec.take()
                r = call(lambda: sub(native, native).thumbprint())
                calls = rec.take()
                dist["digest_variants"] += 1
                ctx.note_case(("digest", label, dg))
                if r[0] == "ok":
                    dvs = dict(sub(native, native).dict_value)
                    add("CThumb %s %s %s %s %s" % (c_oracle(calls), c_dict(dvs), c_list([c_str(f) for f in REQ[kty]]),
                                                   c_str(dg), c_res(r, c_str)), ("digest-subclass", label, dg))
                if r != ("ok", want) or len(want) != DIGEST_LEN[dg]:
                    ctx.violation({"kind": "thumbprint-mismatch", "kty": kty, "repr": "digest-" + dg},
                                  "%s thumbprint of %s is %r, RFC 7638 value is %r" % (dg, label, r[1], want),
                                  {"fn": "key", "jwk": ref_jwk(native), "variant": {"repr": "native", "digest": dg}, "want": want})

        # ---- E. generate_key(auto_kid=True) and key sets
        gen_specs = [("oct", 8), ("oct", 128), ("oct", 256), ("oct", 512), ("EC", "P-256"), ("EC", "P-384"), ("EC", "P-521"),
                     ("EC", "secp256k1"), ("OKP", "Ed25519"), ("OKP", "Ed448"), ("OKP", "X25519"), ("OKP", "X448")]
        for kty, arg in gen_specs * ctx.scale(2, 30):
            params = gen_opts(rng) if rng.random() < 0.5 else None
            private = kty == "oct" or rng.random() < 0.7
            via = rng.random() < 0.5
            rec.take()
            r = call(lambda: (JWKRegistry.generate_key(kty, arg, params, private, True) if via
                              else cls_of(kty).generate_key(arg, params, private, True)))
            rec.take()
            dist["generated"] += 1
            ctx.note_case(("generate", kty, arg, repr(params), private, dist["generated"]))
            sig = {"kind": "generate-auto-kid", "kty": kty}
            if r[0] != "ok":
                ctx.violation(dict(sig, kind="generate-raises"), "generate_key(%r, %r, %r, auto_kid=True) raised %r" % (kty, arg, params, r[1]),
                              {"fn": "generate", "kty": kty, "arg": arg, "params": params, "private": private})
                continue
            K = r[1]
            want = ref_thumbprint(ref_jwk(public_of(K.raw_value)))
            expect_kid = params["kid"] if params and "kid" in params else want
            rp = {"fn": "key", "jwk": ref_jwk(K.raw_value), "variant": {"repr": "native" if private else "native-pub", "opts": params},
                  "want": want, "label": "generate_key"}
            if K.kid != expect_kid or K.thumbprint() != want or K.as_dict().get("kid") != expect_kid:
                ctx.violation(sig, "generate_key(%r, %r, parameters=%r, auto_kid=True): kid %r, thumbprint %r; RFC 7638 value %r" % (
                    kty, arg, params, K.kid, K.thumbprint(), want), rp)
            keys_for_sets.append(K.raw_value)
        # the one generated RSA key through the library's own generator path: auto_kid on a 2048-bit key is slow to
        # generate, so generate_key is called once
        r = call(lambda: RSAKey.generate_key(2048, None, True, True))
        if r[0] == "ok":
            K = r[1]
            want = ref_thumbprint(ref_jwk(K.raw_value.public_key()))
            dist["generated"] += 1
            if K.kid != want or K.thumbprint() != want:
                ctx.violation({"kind": "generate-auto-kid", "kty": "RSA"},
                              "RSAKey.generate_key(2048, auto_kid=True): kid %r, RFC 7638 value %r" % (K.kid, want),
                              {"fn": "key", "jwk": ref_jwk(K.raw_value), "variant": {"repr": "native"}, "want": want})
            keys_for_sets.append(K.raw_value)
        else:
            ctx.violation({"kind": "generate-raises", "kty": "RSA"}, "RSAKey.generate_key raised %r" % (r[1],), {"fn": "generate", "kty": "RSA"})

        pool = [m[1] for m in materials if (not m[0].startswith("oct-") or rng.random() < 0.15)
                and (kty_of(m[1]) != "RSA" or rng.random() < (0.3 if ctx.quick else 1.0))] + \
               [k for k in keys_for_sets if kty_of(k) != "RSA"]
        for _ in range(ctx.scale(60, 600)):
            natives = [rng.choice(pool) for _ in range(rng.randrange(1, 6))]
            vs = []
            for nk in natives:
                v = gen_variants(rng, nk, 1)[0]
                if kty_of(nk) == "RSA" and v["repr"] == "dict-d-only":
                    v["repr"] = "dict"
                vs.append(v)
            b = call(lambda: [build_key(nk, v)[0] for nk, v in zip(natives, vs)])  # noqa
            if b[0] != "ok":
                continue            # reported by the per-key checks
            keys = b[1]
            befores = [(CLS_IDX[k.key_type], k.is_private, dict(k.dict_value)) for k in keys]
            private = rng.choice([None, None, False, True])
            params = rng.choice([{}, {}, {"use": "sig"}, {"foo": "bar"}])
            rec.take()
            r = call(lambda: KeySet(keys).as_dict(private, **params))
            calls = rec.take()
            dist["keysets"] += 1
            ctx.note_case(("keyset", dist["keysets"]))
            afters = [dict(k.dict_value) for k in keys]
            exp = ("ok", (r[1]["keys"], afters)) if r[0] == "ok" else r
            add("CKeySet %s %s %s %s %s" % (
                c_oracle(calls), c_list(["(%s, %s, %s)" % (c_N(i), c_bool(p), c_dict(d)) for i, p, d in befores]),
                c_opt(private, c_bool), c_dict(params),
                c_res(exp, lambda x: "(%s, %s)" % (c_list([c_dict(e) for e in x[0]]), c_list([c_dict(e) for e in x[1]])))),
                ("KeySet", [v["repr"] for v in vs], private, params))
            rp = {"fn": "keyset", "jwks": [ref_jwk(nk) for nk in natives], "variants": vs, "private": private, "params": params}
            for nk, k, bf in zip(natives, keys, befores):
                want = ref_thumbprint(ref_jwk(public_of(nk)))
                exp_kid = bf[2]["kid"] if "kid" in bf[2] else want
                if k.kid != exp_kid:
                    ctx.violation({"kind": "keyset-kid", "kty": k.key_type},
                                  "key in KeySet has kid %r, expected %r (given kid or RFC 7638 thumbprint)" % (k.kid, exp_kid), rp)
            if r[0] == "ok":
                for k, e in zip(keys, r[1]["keys"]):
                    if e.get("kid") != k.kid:
                        ctx.violation({"kind": "keyset-export-kid", "kty": k.key_type},
                                      "KeySet.as_dict member has kid %r, key has %r" % (e.get("kid"), k.kid), rp)
                again = call(lambda: KeySet(keys).as_dict(private, **params))
                if again != r:
                    ctx.violation({"kind": "keyset-unstable"}, "KeySet(...).as_dict() differs on the second call", rp)
                if not params and (private is not False or all(k.key_type != "oct" for k in keys)):
                    im = call(lambda: KeySet.import_key_set(json.loads(json.dumps(r[1]))))
                    if im[0] != "ok" or [k.kid for k in im[1].keys] != [k.kid for k in keys] or \
                            any(k2.thumbprint() != k.thumbprint() for k2, k in zip(im[1].keys, keys)):
                        ctx.violation({"kind": "keyset-reimport"},
                                      "re-importing KeySet.as_dict(private=%r) changed kids or thumbprints (%r)" % (private, im[1] if im[0] != "ok" else ""), rp)
                # scramble the exported JWKS (and a second export) and re-inspect the keys of the set
                kset = KeySet(keys)
                state = [(k.kid, k.thumbprint(), scalars(k.as_dict())) for k in keys]
                for rep in range(2):
                    out = kset.as_dict(private, **params) if rep == 0 else kset.as_dict()
                    for e in list(out["keys"]):
                        scramble(e, rng, e.get("kty") if e.get("kty") in REQ else "oct")
                    scramble(out, rng, None)
                    try:
                        now = [(k.kid, k.thumbprint(), scalars(k.as_dict())) for k in keys]
                    except Exception as exc:   # a scrambled export reached the key itself
                        now = [("re-inspection raised", repr(exc), None)]
                    found = [call(kset.get_by_kid, kid)[0] == "ok" for kid, _, _ in state]
                    if now != state or not all(found):
                        ctx.violation({"kind": "export-aliases-key", "via": "KeySet.as_dict"},
                                      "after editing the dicts inside KeySet.as_dict(%r)['keys'] the keys of the set changed: %r -> %r (get_by_kid ok: %r)" % (
                                          private if rep == 0 else None, [x[:2] for x in state], [x[:2] for x in now], found),
                                      dict(rp, scramble_exports=True))
                        break
            elif not (private is True and any(not k.is_private for k in keys)):
                ctx.violation({"kind": "keyset-raises"}, "KeySet(...).as_dict(private=%r) raised %r" % (private, r[1]), rp)
        # ---- F. entry points, digests x key kinds, histories, falsy-but-valid values (systematic, not sampled)
        entry_points(ctx, dist)
        groups = {}
        for label, native in materials:
            g = label.rsplit("-", 1)[0] if not label.startswith(("fixture:", "rfc", "oct-")) else \
                ("oct" if label.startswith("oct-") else label)
            if "short" in label:
                g = label
            groups.setdefault(g, []).append((label, native))
        MISSING = object()
        for g, ms in sorted(groups.items()):
            picks = [ms[0]] if ctx.quick else ms[:3]
            for label, native in picks:
                kty = kty_of(native)
                cls = cls_of(kty)
                pj = ref_jwk(public_of(native))
                for dg in ("sha256", "sha384", "sha512"):
                    want = ref_thumbprint(pj, dg)
                    rp = {"fn": "key", "jwk": ref_jwk(native), "variant": {"repr": "native", "digest": dg}, "want": want, "label": label}
                    got = {}
                    sub = type("Sub" + dg, (cls,), {"thumbprint_digest_method": dg})
                    got["subclass"] = call(lambda: sub(native, native).thumbprint())
                    got["subclass-import"] = call(lambda: sub.import_key(dict(ref_jwk(native))).thumbprint())

                    def on_instance():
                        k = cls(native, native)
                        k.thumbprint_digest_method = dg
                        return k.thumbprint()
                    got["instance-attribute"] = call(on_instance)

                    def on_class():
                        old = cls.__dict__.get("thumbprint_digest_method", MISSING)
                        try:
                            cls.thumbprint_digest_method = dg
                            return cls(native, native).thumbprint()
                        finally:
                            if old is MISSING:
                                delattr(cls, "thumbprint_digest_method")
                            else:
                                cls.thumbprint_digest_method = old
                    got["class-attribute"] = call(on_class)
                    got["module-function"] = call(lambda: M.thumbprint(dict(cls(native, native).dict_value), [m for m in REQ[kty]][::-1], dg))

                    def auto_kid_sub():
                        k = sub(native, native, {"use": "sig"})
                        first = k.kid
                        k.ensure_kid()
                        k.ensure_kid()
                        return (first, k.kid, KeySet([sub(native, native)]).keys[0].kid)
                    got["auto-kid"] = call(auto_kid_sub)
                    rec.take()
                    for via, r in got.items():
                        dist["digest_matrix"] += 1
                        ctx.note_case(("digest-matrix", label, dg, via))
                        exp = ("ok", want) if via != "auto-kid" else ("ok", (None, want, want))
                        if r != exp:
                            ctx.violation({"kind": "thumbprint-mismatch", "kty": kty, "repr": "digest-%s-%s" % (dg, via)},
                                          "%s thumbprint of %s with the digest selected through %s is %r, RFC 7638 value is %r" % (
                                              dg, label, via, r[1], want), dict(rp, via=via))
                if cls_of(kty).thumbprint_digest_method != "sha256":
                    raise RuntimeError("harness bug: thumbprint_digest_method of the shared class was not restored")

        # ---- G. every constructing entry point THROUGH A SUBCLASS that selects another digest, for every key type:
        # the object is a Sub, its thumbprint / auto kid are the values for Sub's digest and equal those of the same
        # material imported through Sub; a registry / key set with the subclasses registered behaves the same
        from cryptography.hazmat.primitives.asymmetric import rsa as _rsa
        sub_specs = gen_specs + ([("RSA", 1024)] if ctx.quick else [("RSA", 1024), ("RSA", 2048)])
        for dg in ("sha384", "sha512", "sha256"):
            subs = {kty: type("Sub%s%s" % (kty, dg), (cls_of(kty),), {"thumbprint_digest_method": dg}) for kty in REQ}
            reg = type("SubRegistry", (JWKRegistry,), {"key_types": dict(subs)})
            kset_cls = type("SubKeySet", (KeySet,), {"registry_cls": reg})
            for kty, arg in sub_specs:
                if dg == "sha256" and ctx.quick and rng.random() < 0.5:
                    continue
                Sub = subs[kty]
                made = []          # (how, key or error)
                for private in ((True,) if kty == "oct" else (True, False)):
                    for auto in (True, False):
                        made.append(("Sub.generate_key(private=%r, auto_kid=%r)" % (private, auto), auto,
                                     call(lambda: Sub.generate_key(arg, None, private, auto))))
                made.append(("SubRegistry.generate_key(auto_kid=True)", True, call(lambda: reg.generate_key(kty, arg, {"use": "sig"}, True, True))))
                made.append(("SubKeySet.generate_key_set", True, call(lambda: kset_cls.generate_key_set(kty, arg, count=1).keys[0])))
                # imports of one fresh native key through the subclass
                if kty == "oct":
                    nk = bytes(rng.randrange(256) for _ in range(arg // 8))
                elif kty == "RSA":
                    nk = _rsa.generate_private_key(65537, arg)
                elif kty == "EC":
                    nk = det_ec_key(rng, arg)
                else:
                    nk = det_okp_key(rng, arg)
                made.append(("Sub(raw, raw)", False, call(lambda: Sub(nk, nk))))
                made.append(("Sub.import_key(dict)", False, call(lambda: Sub.import_key(ref_jwk(nk)))))
                made.append(("SubRegistry.import_key(dict)", False, call(lambda: reg.import_key(ref_jwk(nk)))))
                made.append(("SubKeySet.import_key_set", True, call(lambda: kset_cls.import_key_set({"keys": [ref_jwk(nk)]}).keys[0])))
                if kty == "oct":
                    made.append(("Sub.import_key(bytes)", False, call(lambda: Sub.import_key(nk))))
                else:
                    made.append(("Sub.import_key(dict public)", False, call(lambda: Sub.import_key(ref_jwk(public_of(nk))))))
                    for enc in ("pem", "der"):
                        for prv in (True, False):
                            made.append(("Sub.import_key(%s %s)" % (enc, "private" if prv else "public"), False,
                                         call(lambda: Sub.import_key(serialize(nk, enc, prv)))))
                    made.append(("SubRegistry.import_key(pem)", False, call(lambda: reg.import_key(serialize(nk, "pem", True), kty))))
                for how, auto, b in made:
                    dist["subclass_constructors"] += 1
                    ctx.note_case(("subclass", dg, kty, arg, how))
                    sig = {"kind": "subclass-digest", "kty": kty, "how": how.split("(")[0]}
                    rp = {"fn": "subclass", "kty": kty, "arg": arg, "digest": dg, "how": how}
                    if b[0] != "ok":
                        ctx.violation(dict(sig, kind="subclass-raises"), "%s for %s %r with digest %s raised %r" % (how, kty, arg, dg, b[1]), rp)
                        continue
                    K = b[1]
                    pj = ref_jwk(public_of(K.raw_value))
                    want = ref_thumbprint(pj, dg)
                    first = call(lambda: K.kid)
                    rec.take()
                    r = call(K.thumbprint)
                    calls = rec.take()
                    dvs = dict(K.dict_value)
                    if not ctx.quick or rng.random() < 0.5 or how.startswith(("Sub.generate_key", "SubRegistry.generate_key", "SubKeySet.generate")):
                      add("CSubKey %s %s %s %s %s" % (c_oracle(calls), c_N(CLS_IDX[kty]), c_dict({k: x for k, x in dvs.items() if k in REQ[kty] or k == "kid"}),
                                                    c_str(dg), c_res(r, c_str)), ("subclass-key", how, kty, arg, dg))
                    K.ensure_kid()
                    again = call(lambda: Sub.import_key(ref_jwk(public_of(K.raw_value)) if kty != "oct" else ref_jwk(K.raw_value)).thumbprint())
                    problems = []
                    if type(K) is not Sub:
                        problems.append("the object is a %s, not the subclass" % type(K).__name__)
                    if r != ("ok", want):
                        problems.append("thumbprint %r, RFC 7638 value for %s is %r" % (r[1], dg, want))
                    if first != ("ok", want if auto else None):
                        problems.append("kid right after construction %r, expected %r" % (first[1], want if auto else None))
                    if K.kid != want:
                        problems.append("kid after ensure_kid %r, expected %r" % (K.kid, want))
                    if again != ("ok", want) or again != r:
                        problems.append("the same material imported through the subclass has thumbprint %r" % (again[1],))
                    if problems:
                        ctx.violation(sig, "%s for %s %r, subclass with thumbprint_digest_method=%r: %s" % (how, kty, arg, dg, "; ".join(problems)), rp)

        # ---- H. generation with an explicit kid in `parameters`: every key type x every generating entry (class, registry,
        # key set, subclass, registry / key set of subclasses) x auto_kid True / False / omitted: the given kid stays
        other_thumb = ref_thumbprint(ref_jwk(public_of(materials[-1][1])))
        h_subs = {kty: type("SubH" + kty, (cls_of(kty),), {"thumbprint_digest_method": "sha384"}) for kty in REQ}
        h_reg = type("SubRegistryH", (JWKRegistry,), {"key_types": dict(h_subs)})
        h_kset = type("SubKeySetH", (KeySet,), {"registry_cls": h_reg})
        gen_budget = {"RSA": ctx.scale(2, 12)}
        for kty, arg in gen_specs + [("RSA", 1024)] + ([] if ctx.quick else [("RSA", 2048)]):
            cls = cls_of(kty)
            for given in ["", "my-kid", other_thumb, "0", None]:
                for auto in (True, False, None):
                    for entry in ("class", "registry", "keyset", "subclass", "subclass-registry", "subclass-keyset"):
                        if ctx.quick and kty == "RSA" and arg != 1024:
                            continue
                        if ctx.quick and given in ("0", None) and rng.random() < 0.6:
                            continue
                        if entry.endswith("keyset") and auto is not None:
                            continue               # generate_key_set has no auto_kid argument: the constructor assigns kids
                        private = kty == "oct" or rng.random() < 0.6
                        params = {"use": "sig"} if rng.random() < 0.5 else {}
                        if given is not None:
                            params["kid"] = given
                        if rng.random() < 0.3:
                            params["alg"] = "whatever"
                        if given is None and rng.random() < 0.3:
                            params = None
                        handed = copy.deepcopy(params)
                        kw = {} if auto is None else {"auto_kid": auto}

                        def gen():
                            if entry == "class":
                                return cls.generate_key(arg, handed, private, **kw)
                            if entry == "registry":
                                return JWKRegistry.generate_key(kty, arg, handed, private, **kw)
                            if entry == "keyset":
                                return KeySet.generate_key_set(kty, arg, handed, private, count=2).keys[1]
                            if entry == "subclass":
                                return h_subs[kty].generate_key(arg, handed, private, **kw)
                            if entry == "subclass-registry":
                                return h_reg.generate_key(kty, arg, handed, private, **kw)
                            return h_kset.generate_key_set(kty, arg, handed, private, count=2).keys[0]
                        rec.take()
                        r = call(gen)
                        calls = rec.take()
                        dist["generate_kid_matrix"] += 1
                        ctx.note_case(("generate-kid", kty, arg, given, auto, entry, dist["generate_kid_matrix"]))
                        sig = {"kind": "generate-kid", "kty": kty, "entry": entry}
                        rp = {"fn": "generate-kid", "kty": kty, "arg": arg, "parameters": params, "private": private,
                              "auto_kid": auto, "entry": entry}
                        if r[0] != "ok":
                            ctx.violation(dict(sig, kind="generate-raises"), "generation of %s %r via %s with parameters %r, auto_kid=%r raised %r" % (
                                kty, arg, entry, params, auto, r[1]), rp)
                            continue
                        K = r[1]
                        sub = entry.startswith("subclass")
                        want = ref_thumbprint(ref_jwk(public_of(K.raw_value)), "sha384" if sub else "sha256")
                        assigns = bool(auto) or entry.endswith("keyset")
                        exp_now = given if given is not None else (want if assigns else None)
                        now = call(lambda: K.kid)
                        dv_now = dict(K.dict_value)
                        if not sub and (kty != "RSA" or gen_budget["RSA"] > 0) and rng.random() < (0.35 if ctx.quick else 0.6) \
                                and not entry.endswith("keyset"):
                            gen_budget["RSA"] -= (kty == "RSA")
                            add("CGenerate %s %s %s %s %s" % (c_oracle(calls), c_native(K.raw_value), c_opt(params, c_dict), c_bool(bool(auto)),
                                                              "(Ok %s)" % c_dict(dv_now)), ("generate", kty, arg, params, auto, entry))
                        K.ensure_kid()
                        K.ensure_kid()
                        exp_after = given if given is not None else want
                        problems = []
                        if now != ("ok", exp_now):
                            problems.append("kid after generation is %r, expected %r" % (now[1], exp_now))
                        if K.kid != exp_after or K.as_dict().get("kid") != exp_after:
                            problems.append("kid after ensure_kid is %r (exported %r), expected %r" % (K.kid, K.as_dict().get("kid"), exp_after))
                        if K.thumbprint() != want:
                            problems.append("thumbprint %r, RFC 7638 value %r" % (K.thumbprint(), want))
                        if handed != params:
                            problems.append("the caller's parameters dict was changed to %r" % (handed,))
                        if given is not None and KeySet([K]).keys[0].kid != given:
                            problems.append("KeySet([key]) changed the kid to %r" % (K.kid,))
                        if problems:
                            ctx.violation(sig, "generation of %s %r via %s with parameters=%r, private=%r, auto_kid=%r: %s (thumbprint %r)" % (
                                kty, arg, entry, params, private, auto, "; ".join(problems), want), rp)

        # import_key_set of a JWK Set whose members have no kid / an explicit kid (also the falsy ""), with shared parameters
        for _ in range(ctx.scale(25, 300)):
            nats = [rng.choice(materials)[1] for _ in range(rng.randrange(1, 5))]
            members, exp_kids = [], []
            for nk in nats:
                j = ref_jwk(nk if rng.random() < 0.6 else public_of(nk))
                want = ref_thumbprint(ref_jwk(public_of(nk)))
                if rng.random() < 0.35:
                    j["kid"] = rng.choice(KIDS)
                if rng.random() < 0.3:
                    j["use"] = "sig"
                items = list(j.items())
                rng.shuffle(items)
                members.append(dict(items))
                exp_kids.append(j.get("kid", want))
            shared = rng.choice([None, {}, {"alg": "whatever"}, {"use": "enc"}])
            if shared and "use" in shared and any("use" in m for m in members):
                shared = None
            jwks = {"keys": copy.deepcopy(members)}
            r = call(lambda: KeySet.import_key_set(jwks, shared))
            dist["import_key_set"] += 1
            ctx.note_case(("import_key_set", dist["import_key_set"]))
            rp = {"fn": "import_key_set", "jwks": {"keys": members}, "parameters": shared, "expected_kids": exp_kids}
            if r[0] != "ok":
                ctx.violation({"kind": "keyset-raises", "via": "import_key_set"}, "KeySet.import_key_set raised %r" % (r[1],), rp)
                continue
            kids = [k.kid for k in r[1].keys]
            ex = call(lambda: [e.get("kid") for e in r[1].as_dict(False if all(m["kty"] != "oct" for m in members) else None)["keys"]])
            if kids != exp_kids or ex != ("ok", exp_kids) or shared not in (None, {}, {"alg": "whatever"}, {"use": "enc"}):
                ctx.violation({"kind": "keyset-kid", "via": "import_key_set"},
                              "KeySet.import_key_set: kids %r (exported %r), expected %r (given kid, else the RFC 7638 thumbprint)" % (
                                  kids, ex[1], exp_kids), rp)

        # generate entry points: auto_kid False / omitted / True, parameters None / {} / shared between keys, public halves
        for kty, arg in gen_specs:
            cls = cls_of(kty)
            for auto in (False, None, True):
                for via in ("class", "registry"):
                    shared = rng.choice([None, {}, {"use": "sig"}, {"alg": "a", "zz": "1"}])
                    snapshot = copy.deepcopy(shared)
                    private = kty == "oct" or rng.random() < 0.6

                    def gen():
                        kw = {} if auto is None else {"auto_kid": auto}
                        if via == "class":
                            return cls.generate_key(arg, shared, private, **kw)
                        return JWKRegistry.generate_key(kty, arg, shared, private, **kw)
                    r = call(lambda: (gen(), gen()))
                    dist["generated"] += 2
                    ctx.note_case(("generate-matrix", kty, arg, auto, via, repr(shared)))
                    rp = {"fn": "generate", "kty": kty, "arg": arg, "auto_kid": auto, "via": via, "parameters": snapshot, "private": private}
                    if r[0] != "ok":
                        ctx.violation({"kind": "generate-raises", "kty": kty}, "generate_key(%r, %r, %r, auto_kid=%r) via %s raised %r" % (
                            kty, arg, snapshot, auto, via, r[1]), rp)
                        continue
                    k1, k2 = r[1]
                    w1, w2 = (ref_thumbprint(ref_jwk(public_of(k.raw_value))) for k in (k1, k2))
                    first = (k1.kid, k2.kid)
                    exp_first = (w1, w2) if auto else (None, None)
                    k1.ensure_kid()
                    k2.ensure_kid()
                    k1.ensure_kid()
                    ks = call(lambda: KeySet([k1, k2]))
                    problems = []
                    if first != exp_first:
                        problems.append("kids right after generation %r, expected %r" % (first, exp_first))
                    if (k1.kid, k2.kid) != (w1, w2) or (k1.thumbprint(), k2.thumbprint()) != (w1, w2):
                        problems.append("kids after ensure_kid %r, RFC 7638 thumbprints %r" % ((k1.kid, k2.kid), (w1, w2)))
                    if shared != snapshot:
                        problems.append("the shared parameters dict was changed to %r" % (shared,))
                    if k1.is_private != private:
                        problems.append("private=%r gave is_private=%r" % (private, k1.is_private))
                    # (two generated 8-bit oct keys may be equal: compare what is found by kid, not by identity)
                    f1, f2 = (call(ks[1].get_by_kid, w) if ks[0] == "ok" else ("err", None) for w in (w1, w2))
                    if f1[0] != "ok" or f2[0] != "ok" or f1[1] not in (k1, k2) or f2[1] not in (k1, k2) or \
                            f1[1].thumbprint() != w1 or f2[1].thumbprint() != w2:
                        problems.append("KeySet.get_by_kid(thumbprint) does not find the keys")
                    if problems:
                        ctx.violation({"kind": "generate-auto-kid", "kty": kty, "via": via, "auto_kid": str(auto)},
                                      "generate_key(%r, %r, parameters=%r, private=%r, auto_kid=%r) via %s, twice with one parameters dict: %s" % (
                                          kty, arg, snapshot, private, auto, via, "; ".join(problems)), rp)
        # (recorded, not demanded: the property speaks of RFC-conformant JWKs) non-canonical member spellings the importer accepts
        for label, native in materials:
            kty = kty_of(native)
            pj = ref_jwk(public_of(native))
            alts = []
            if kty == "EC":
                for m in ("x", "y"):
                    raw = b64u_dec(pj[m])
                    alts.append((m + " with an extra leading zero octet", dict(pj, **{m: b64u(b"\0" + raw)})))
                    if raw[0] == 0:
                        alts.append((m + " without its leading zero octet", dict(pj, **{m: b64u(raw.lstrip(b"\0"))})))
            elif kty == "RSA":
                alts.append(("e with a leading zero octet", dict(pj, e=b64u(b"\0" + b64u_dec(pj["e"])))))
            elif kty == "oct" and len(native) % 3:
                alts.append(("k with base64 padding", dict(pj, k=pj["k"] + "=" * (-len(pj["k"]) % 4))))
            for what, alt in alts[:2] if ctx.quick else alts:
                r = call(lambda: JWKRegistry.import_key(dict(alt)).thumbprint())
                soft["noncanonical_probes"] += 1
                if r[0] == "ok" and r[1] != ref_thumbprint(pj):
                    soft["noncanonical_accepted_other_thumbprint"] += 1
                    soft.setdefault("noncanonical_witnesses", {}).setdefault(
                        kty + ": " + what, {"jwk": alt, "thumbprint": r[1], "rfc7638_of_the_key": ref_thumbprint(pj)})
                elif r[0] == "ok":
                    soft["noncanonical_accepted_same_thumbprint"] += 1
                else:
                    soft["noncanonical_refused"] += 1

        for kty, arg in gen_specs:
            r = call(lambda: KeySet.generate_key_set(kty, arg, count=3))
            ctx.note_case(("generate_key_set", kty))
            bad = r[0] != "ok" or any(k.kid != ref_thumbprint(ref_jwk(public_of(k.raw_value))) for k in r[1].keys)
            if bad:
                ctx.violation({"kind": "keyset-kid", "kty": kty}, "KeySet.generate_key_set(%r, %r): a kid is not the RFC 7638 thumbprint" % (kty, arg),
                              {"fn": "generate_key_set", "kty": kty, "arg": arg})
    finally:
        M.hashlib = saved_hashlib

    dist["per_repr"] = per_repr
    ctx.coverage["recorded_not_demanded"] = soft
    ctx.coverage["input_distribution"] = dist
    ctx.coverage["rule"] = ("Key.thumbprint() == base64url(SHA-256(RFC 7638 canonical JSON of the public key built by an independent "
                            "reference from the native key numbers)), for every representation / optional members / order; "
                            "auto kid == that value, existing kid kept, stable; model == implementation on every recorded call")
    ctx.sample({"fn": "thumbprint", "jwk": "RFC 7638 3.1", "impl": call(lambda: RSAKey.import_key(dict(RFC7638_EXAMPLE)).thumbprint())[1],
                "rfc": RFC7638_THUMB})
    ctx.sample({"fn": "thumbprint", "jwk": "RFC 8037 A.3", "impl": call(lambda: OKPKey.import_key(dict(RFC8037_A3)).thumbprint())[1],
                "rfc": RFC8037_A3_THUMB})
    ctx.sample({"ec_short_coordinate_keys": dist["ec_short"]})
    for i in (0, len(cases) // 2, len(cases) - 1):
        ctx.sample({"coq_case": cases[i][:160]})
    # the two RFC vectors on the implementation
    for j, want, nm in ((RFC7638_EXAMPLE, RFC7638_THUMB, "RFC 7638 3.1"), (RFC8037_A3, RFC8037_A3_THUMB, "RFC 8037 A.3")):
        r = call(lambda: JWKRegistry.import_key(dict(j)).thumbprint())
        ctx.note_case(("vector", nm))
        if r != ("ok", want):
            ctx.violation({"kind": "thumbprint-mismatch", "kty": j["kty"], "repr": "rfc-vector"},
                          "thumbprint of the %s example key is %r, the RFC says %r" % (nm, r[1], want),
                          {"fn": "key", "jwk": j, "variant": {"repr": "literal"}, "want": want})

    # ---- correspondence: model (vm_compute) vs recorded implementation behaviour
    ev = lib.CoqEval(["From Model Require Import Base PyVal B64 IntCodec TableTypes C13Json C13Thumb C13Sha256 C13Cases."],
                     "c13case", "c13_check", "c13_show", shard=80, max_chars=100000)
    _t2 = _time.time()
    res = ev.run(cases, jobs=12, timeout=ctx.scale(900, 3000))
    if res["errors"] and all(not err.strip() for _, err in res["errors"]):
        # coqc killed from outside without output (memory pressure on a loaded machine): evaluate once more, fewer processes
        ctx.notes.append("case evaluation repeated after %d killed coqc runs" % len(res["errors"]))
        res = ev.run(cases, jobs=4, timeout=ctx.scale(900, 3000))
    ctx.notes.append("wall: prove %.1fs, implementation runs %.1fs, case evaluation %.1fs (%d cases, %d chars)" % (
        _t1 - _t0, _t2 - _t1, _time.time() - _t2, len(cases), sum(len(c) for c in cases)))
    _kinds = {}
    for c, m in zip(cases, meta):
        k = c.split(" ", 1)[0]
        a = _kinds.setdefault(k, [0, 0])
        a[0] += 1
        a[1] += len(c)
    ctx.coverage["case_kinds"] = {k: {"cases": a[0], "chars": a[1]} for k, a in sorted(_kinds.items())}
    ctx.coverage["traces_validated_against_impl"] = res["evaluated"]
    ctx.coverage["disagreements_checked"] = len(res["failing"])
    direct = len(ctx.violations)
    for i in res["failing"][:20]:
        ctx.violation({"kind": "correspondence", "fn": meta[i][0]},
                      "model and implementation disagree on %s %r" % (meta[i][0], meta[i][1:]),
                      {"case": cases[i][:20000], "no_failing_input_found": direct == 0,
                       "broken": "correspondence model/C13Cases.v:c13_check vs joserfc"})
    for si, err in res["errors"]:
        ctx.violation({"kind": "correspondence-error"}, "coqc failed on a generated case file",
                      {"output": err, "no_failing_input_found": True, "broken": "case evaluation"})
    if not ok:
        nv = len(ctx.violations)
        ctx.violation({"kind": "proof-broken"}, "props/C13.v or its closure no longer compiles",
                      {"log": log[-3000:], "no_failing_input_found": direct == 0 and not res["failing"],
                       "broken": "theorems of props/C13.v"})
        if len(ctx.violations) > nv:        # print it first: the direct oracle may report many signatures
            ctx.violations.insert(0, ctx.violations.pop())
    ctx.assumptions += [
        "hashlib.new(name, data).digest() is a Section variable (hashnew) with the contract 'a digest is an octet string'; in the "
        "correspondence it is instantiated by the hashlib calls recorded from the implementation",
        "json.dumps(ensure_ascii=True, separators=(',',':')) and str.encode('utf-8') are transcribed by hand in model/C13Json.v "
        "(floats excluded) and validated against CPython on generated values",
        "pyca/cryptography loads PEM/DER into the native key whose numbers the model's `native` carries; the JWK member encodings "
        "(export_native) are validated against the bindings' export functions",
    ]
    if not ctx.quick:
        ctx.coqchk()


def replay(path):
    import joserfc.jwk  # noqa
    r = json.load(open(path))["replay"]
    print("replay:", {k: (v if k != "case" else v[:200]) for k, v in r.items()})
    if r.get("fn") == "history":
        native = native_from_jwk(r["jwk"])
        K, _, owned = build_key(native, r["variant"])
        want = ref_thumbprint(ref_jwk(public_of(native)))
        hp = call(history_probe, K, r["how"], owned, random.Random(r["hseed"]), want)
        if hp[0] != "ok":
            print("export via", r["how"], "-> re-inspecting the key raised %r" % (hp[1],))
            return 1
        hard, softd = hp[1]
        print("export via", r["how"], "->", hard or "key unchanged", "|", softd or "")
        return 1 if hard else 0
    if r.get("fn") == "key":
        jwk, v = r["jwk"], r["variant"]
        native = native_from_jwk(jwk)
        want = ref_thumbprint(ref_jwk(public_of(native)), v.get("digest", "sha256"))
        if v.get("repr") == "literal":
            from joserfc.jwk import JWKRegistry
            K = JWKRegistry.import_key(dict(jwk))
        elif v.get("digest") and r.get("via") == "instance-attribute":
            K = cls_of(jwk["kty"])(native, native)
            K.thumbprint_digest_method = v["digest"]
        elif v.get("digest") and r.get("via") == "module-function":
            import joserfc.rfc7638 as M
            t = M.thumbprint(dict(cls_of(jwk["kty"])(native, native).dict_value), REQ[jwk["kty"]][::-1], v["digest"])
            print("rfc7638.thumbprint:", t, " RFC 7638 value:", want)
            return 1 if t != want else 0
        elif v.get("digest"):
            sub = type("Sub", (cls_of(jwk["kty"]),), {"thumbprint_digest_method": v["digest"]})
            K = sub.import_key(dict(jwk)) if r.get("via") == "subclass-import" else sub(native, native)
        else:
            K, _, _ = build_key(native, v)
        had = "kid" in K.dict_value
        kid0 = K.dict_value.get("kid")
        t = K.thumbprint()
        K.ensure_kid()
        kid1 = K.kid
        K.ensure_kid()
        print("thumbprint:", t, " RFC 7638 value:", want, " kid:", kid1, "(given: %r)" % (kid0,) if had else "(auto)")
        bad = t != want or (kid1 != kid0 if had else (kid1 != want and not v.get("digest"))) or K.kid != kid1 \
            or K.as_dict().get("kid") != kid1
        for m in REQ[jwk["kty"]]:
            if K.dict_value.get(m) != ref_jwk(public_of(native))[m]:
                print("member", m, "is", K.dict_value.get(m), "RFC form", ref_jwk(public_of(native))[m])
                bad = True
        return 1 if bad else 0
    if r.get("fn") == "subclass":
        from joserfc.jwk import JWKRegistry, KeySet
        kty, arg, dg, how = r["kty"], r["arg"], r["digest"], r["how"]
        subs = {k: type("Sub" + k, (cls_of(k),), {"thumbprint_digest_method": dg}) for k in REQ}
        reg = type("SubRegistry", (JWKRegistry,), {"key_types": dict(subs)})
        kset_cls = type("SubKeySet", (KeySet,), {"registry_cls": reg})
        Sub = subs[kty]
        if how.startswith("Sub.generate_key"):
            K = Sub.generate_key(arg, None, "private=True" in how, "auto_kid=True" in how)
        elif how.startswith("SubRegistry.generate_key"):
            K = reg.generate_key(kty, arg, {"use": "sig"}, True, True)
        elif how.startswith("SubKeySet.generate_key_set"):
            K = kset_cls.generate_key_set(kty, arg, count=1).keys[0]
        else:
            base = cls_of(kty).generate_key(arg)
            nk = base.raw_value
            if how == "Sub(raw, raw)":
                K = Sub(nk, nk)
            elif how == "SubRegistry.import_key(dict)":
                K = reg.import_key(ref_jwk(nk))
            elif how == "SubKeySet.import_key_set":
                K = kset_cls.import_key_set({"keys": [ref_jwk(nk)]}).keys[0]
            elif how == "Sub.import_key(bytes)":
                K = Sub.import_key(nk)
            elif how == "Sub.import_key(dict public)":
                K = Sub.import_key(ref_jwk(public_of(nk)))
            elif how == "SubRegistry.import_key(pem)":
                K = reg.import_key(serialize(nk, "pem", True), kty)
            elif how.startswith("Sub.import_key(pem") or how.startswith("Sub.import_key(der"):
                K = Sub.import_key(serialize(nk, how[15:18], "private" in how))
            else:
                K = Sub.import_key(ref_jwk(nk))
        want = ref_thumbprint(ref_jwk(public_of(K.raw_value)), dg)
        t = K.thumbprint()
        K.ensure_kid()
        print(how, "->", type(K).__name__, "thumbprint", t, "kid", K.kid, " RFC 7638 value for", dg, ":", want)
        return 1 if (type(K) is not Sub or t != want or (K.kid != want)) else 0
    if r.get("fn") == "generate-kid":
        from joserfc.jwk import JWKRegistry, KeySet
        kty, arg, params, private, auto, entry = r["kty"], r["arg"], r["parameters"], r["private"], r["auto_kid"], r["entry"]
        subs = {k: type("SubH" + k, (cls_of(k),), {"thumbprint_digest_method": "sha384"}) for k in REQ}
        reg = type("SubRegistryH", (JWKRegistry,), {"key_types": dict(subs)})
        kset = type("SubKeySetH", (KeySet,), {"registry_cls": reg})
        kw = {} if auto is None else {"auto_kid": auto}
        handed = copy.deepcopy(params)
        K = {"class": lambda: cls_of(kty).generate_key(arg, handed, private, **kw),
             "registry": lambda: JWKRegistry.generate_key(kty, arg, handed, private, **kw),
             "keyset": lambda: KeySet.generate_key_set(kty, arg, handed, private, count=2).keys[1],
             "subclass": lambda: subs[kty].generate_key(arg, handed, private, **kw),
             "subclass-registry": lambda: reg.generate_key(kty, arg, handed, private, **kw),
             "subclass-keyset": lambda: kset.generate_key_set(kty, arg, handed, private, count=2).keys[0]}[entry]()
        want = ref_thumbprint(ref_jwk(public_of(K.raw_value)), "sha384" if entry.startswith("subclass") else "sha256")
        given = (params or {}).get("kid")
        assigns = bool(auto) or entry.endswith("keyset")
        exp = given if params and "kid" in params else (want if assigns else None)
        print("kid after generation:", repr(K.kid), "expected:", repr(exp), " thumbprint:", K.thumbprint(), "RFC 7638 value:", want)
        bad = K.kid != exp or K.thumbprint() != want
        K.ensure_kid()
        return 1 if bad or K.kid != (given if params and "kid" in params else want) else 0
    if r.get("fn") == "import_key_set":
        from joserfc.jwk import KeySet
        ks = KeySet.import_key_set(copy.deepcopy(r["jwks"]), r["parameters"])
        kids = [k.kid for k in ks.keys]
        print("kids:", kids, "expected:", r["expected_kids"])
        return 1 if kids != r["expected_kids"] else 0
    if r.get("fn") == "generate" and "auto_kid" in r:
        from joserfc.jwk import JWKRegistry
        kw = {} if r["auto_kid"] is None else {"auto_kid": r["auto_kid"]}
        p = copy.deepcopy(r["parameters"])
        K = (cls_of(r["kty"]).generate_key(r["arg"], p, r["private"], **kw) if r["via"] == "class"
             else JWKRegistry.generate_key(r["kty"], r["arg"], p, r["private"], **kw))
        want = ref_thumbprint(ref_jwk(public_of(K.raw_value)))
        first = K.kid
        K.ensure_kid()
        print("kid after generation:", first, " after ensure_kid:", K.kid, " RFC 7638 value:", want, " parameters:", p)
        return 1 if first != (want if r["auto_kid"] else None) or K.kid != want or p != r["parameters"] else 0
    if r.get("fn") == "thumbprint":
        import joserfc.rfc7638 as M
        print(call(M.thumbprint, r["dict"], r["fields"], r["digest"]), "want", r.get("want"))
        return 1
    if r.get("fn") == "keyset":
        from joserfc.jwk import KeySet
        keys = [build_key(native_from_jwk(j), v)[0] for j, v in zip(r["jwks"], r["variants"])]
        given = [k.dict_value.get("kid") if "kid" in k.dict_value else None for k in keys]
        has = ["kid" in k.dict_value for k in keys]
        out = KeySet(keys).as_dict(r["private"], **r["params"])
        bad = False
        for j, k, g, h, e in zip(r["jwks"], keys, given, has, out["keys"]):
            want = g if h else ref_thumbprint(ref_jwk(public_of(native_from_jwk(j))))
            print("kid", k.kid, "expected", want, "exported", e.get("kid"))
            bad = bad or k.kid != want or e.get("kid") != want
        return 1 if bad else 0
    print("see the replay file for the failing case")
    return 1
