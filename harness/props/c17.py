"""C17 — decompression of JWE plaintext is bounded.

Proof: coq/props/C17.v (model coq/model/C17Zip.v, zlib as a Section variable with
the contract `zlib_ok`).  This module
  * validates every clause of that contract against the real zlib,
  * runs the real DeflateZipModel.compress/decompress and jwe.decrypt_* of /repo
    with zlib and the enc models instrumented (calls are recorded, nothing in
    /repo is edited), and replays every recorded run through the Gallina model
    (coq/model/C17Cases.v) — model/implementation correspondence,
  * checks the property itself on the implementation's outputs (round trip,
    bound, exceeded-size error, raw emission, position after authentication,
    peak memory)."""
import os, sys, json, zlib, base64, struct, subprocess, tempfile, resource
import lib
from lib import c_hex, c_Z, c_N, c_bool, c_list, c_exn, exn_class

LIMIT = 256000                    # literal of the property text
ZHEAD = b"\x78\x9c"               # "the default zlib header" (RFC 1950: CMF=78, FLG=9C)
LITMAX = 1600                     # longest literal octet string written into a Coq case

# ---------------------------------------------------------------------------
# compact descriptions of long octet strings (mirror of C17Cases.bspec)
# ---------------------------------------------------------------------------
LCG_SEED = 20240229


class Lcg:
    """octets of x' = (1103515245 x + 12345) mod 2^31, octet = bits 16..23"""

    def __init__(self, n):
        x = LCG_SEED
        st = [x]
        out = bytearray()
        for _ in range(n):
            x = (x * 1103515245 + 12345) & 0x7FFFFFFF
            out.append((x >> 16) & 0xFF)
            st.append(x)
        self.data, self.states = bytes(out), st


_LCG = {}


def lcg_source(n):
    need = 1 << 19 if n <= (1 << 19) else 1 << 21
    if need < n:
        raise ValueError("lcg source too short")
    if need not in _LCG:
        _LCG[need] = Lcg(need)
    return _LCG[need]


def spec_eval(sp):
    k = sp[0]
    if k == "lit":
        return sp[1]
    if k == "cyc":
        pat, n = sp[1], sp[2]
        if not pat:
            return b""
        return (pat * (n // len(pat) + 1))[:n]
    if k == "lcg":
        x, out = sp[1], bytearray()
        for _ in range(sp[2]):
            x = (x * 1103515245 + 12345) & 0x7FFFFFFF
            out.append((x >> 16) & 0xFF)
        return bytes(out)
    if k == "app":
        return spec_eval(sp[1]) + spec_eval(sp[2])
    raise ValueError(k)


def spec_term(sp):
    k = sp[0]
    if k == "lit":
        if len(sp[1]) <= 8:
            return "(SLit %s)" % c_hex(sp[1])
        return "(SNum 0x1%s)" % sp[1][::-1].hex()
    if k == "cyc":
        return "(SCyc %s %s)" % (c_hex(sp[1]), c_N(sp[2]))
    if k == "lcg":
        return "(SLcg %s %s)" % (c_N(sp[1]), c_N(sp[2]))
    return "(SApp %s %s)" % (spec_term(sp[1]), spec_term(sp[2]))


def _lcp(a, ai, b, bi):
    n = min(len(a) - ai, len(b) - bi)
    if n <= 0 or a[ai] != b[bi]:
        return 0
    lo, hi = 1, n
    if a[ai:ai + n] == b[bi:bi + n]:
        return n
    while lo < hi:                      # largest L with equal prefixes
        mid = (lo + hi + 1) // 2
        if a[ai:ai + mid] == b[bi:bi + mid]:
            lo = mid
        else:
            hi = mid - 1
    return lo


def _longest_run(b):
    """longest stretch of b that is periodic with a period 1..4 -> (start, end, period)"""
    best = (0, 0, 1)
    for p in (1, 2, 3, 4):
        start = None
        for i in range(p, len(b) + 1):
            same = i < len(b) and b[i] == b[i - p]
            if same and start is None:
                start = i - p
            elif not same and start is not None:
                if i - start > best[1] - best[0]:
                    best = (start, i, p)
                start = None
    return best


def spec_of(b, lcg=None, lcg_off=0):
    """-> bspec tuple denoting exactly b, or None when no compact form is found."""
    b = bytes(b)
    if len(b) <= 48:
        return ("lit", b)
    for p in range(1, 65):
        if b[p:] == b[:-p]:
            return ("cyc", b[:p], len(b))
    if len(b) <= 1 << 16:
        i, j, p = _longest_run(b)
        if j - i >= 64 and len(b) - (j - i) <= LITMAX:
            sp = ("cyc", b[i:i + p], j - i)
            if j < len(b):
                sp = ("app", sp, ("lit", b[j:]))
            if i > 0:
                sp = ("app", ("lit", b[:i]), sp)
            return sp
    if len(b) <= LITMAX:
        return ("lit", b)
    if lcg is None:
        return None
    parts, lit, i, off, lits = [], bytearray(), 0, lcg_off, 0
    while i < len(b):
        L = _lcp(b, i, lcg.data, off) if off < len(lcg.data) else 0
        if L >= 64:
            if lit:
                parts.append(("lit", bytes(lit))); lit = bytearray()
            parts.append(("lcg", lcg.states[off], L))
            i += L; off += L
        else:
            lit.append(b[i]); i += 1; lits += 1
            if lits > LITMAX:
                return None
    if lit:
        parts.append(("lit", bytes(lit)))
    sp = parts[-1]
    for q in reversed(parts[:-1]):
        sp = ("app", q, sp)
    return sp


class SpecCache:
    """spec_of + check that the description denotes the real octets"""

    def __init__(self):
        self.big = {}          # id -> (spec, bytes) of non-literal specs (for CSpecSum)
        self.failed = 0

    def get(self, b, lcg=None, lcg_off=0):
        sp = spec_of(b, lcg, lcg_off)
        if sp is None:
            self.failed += 1
            return None
        if sp[0] != "lit":
            if spec_eval(sp) != bytes(b):
                raise RuntimeError("internal: octet-string description does not denote the data")
            key = (len(b), zlib.adler32(b))
            self.big.setdefault(key, (sp, bytes(b)))
        return sp


# ---------------------------------------------------------------------------
# stream construction
# ---------------------------------------------------------------------------
ALPHS = [b"0123456789", b"abcdefghijklmnopqrstuvwxyz", b'abcdefghij0123456789{}":, ', bytes(range(32, 127)),
         bytes(range(256))]


def records(desc):
    """record-structured text: lines with a shared prefix of desc['pl'] octets (deterministic from desc['seed'])"""
    import random
    rng = random.Random(desc["seed"])
    al = ALPHS[desc["alph"]]
    pl, total, distinct = desc["pl"], desc["n"], desc["distinct"]
    bl = max(desc["rl"] - pl, 1)
    prefix = bytes(rng.choices(al, k=pl))
    pool = [bytes(rng.choices(al, k=bl)) for _ in range(distinct)]
    out, size = [], 0
    while size < total:
        if pool and rng.randrange(4):
            b = bytearray(rng.choice(pool)); b[rng.randrange(bl)] = rng.choice(al); body = bytes(b)
        else:
            body = bytes(rng.choices(al, k=bl))
        out.append(prefix + body + b"\n"); size += pl + bl + 1
    return b"".join(out)[:total]


def data_of(desc):
    c = desc["cls"]
    n = desc["n"]
    if c == "records":
        return records(desc)
    if c == "const":
        return bytes([desc["c"]]) * n
    if c == "periodic":
        pat = bytes.fromhex(desc["pat"])
        return (pat * (n // len(pat) + 1))[:n]
    if c == "lcg":
        return lcg_source(n).data[:n]
    if c == "lit":
        return bytes.fromhex(desc["hex"])
    if c == "zeros":
        return None                       # too large to materialise; streamed
    raise ValueError(c)


def zeros_stream(n, wbits):
    co = zlib.compressobj(-1, zlib.DEFLATED, wbits)       # default level: header 78 9C when wrapped
    out, chunk, left = [], bytes(1 << 20), n
    while left > 0:
        k = min(left, 1 << 20)
        out.append(co.compress(chunk[:k])); left -= k
    out.append(co.flush())
    return b"".join(out)


def stored_stream(p, sizes, pad=0):
    """hand-assembled RFC 1951 stored blocks; pad = value of the 5 padding bits"""
    out, i, k = bytearray(), 0, 0
    blocks = []
    while True:
        ln = min(sizes[k % len(sizes)], 65535, len(p) - i)
        blocks.append(p[i:i + ln]); i += ln; k += 1
        if i >= len(p):
            break
    for j, blk in enumerate(blocks):
        final = 1 if j == len(blocks) - 1 else 0
        out.append(final | (pad << 3))
        out += struct.pack("<HH", len(blk), len(blk) ^ 0xFFFF)
        out += blk
    return bytes(out)


def build_stream(desc, zipmodel=None):
    """desc -> (stream octets, plaintext or None).  Deterministic (replayable)."""
    how = desc["how"]
    if how == "concat":
        return bytes.fromhex(desc["hex"]), None
    p = data_of(desc["data"])
    if how == "impl":
        return zipmodel.compress(p), p
    if how == "zeros":
        return zeros_stream(desc["data"]["n"], desc["wbits"]), None
    if how == "obj":
        if desc.get("zdict"):
            co = zlib.compressobj(desc["level"], zlib.DEFLATED, desc["wbits"], desc.get("mem", 8), desc["strategy"],
                                  bytes.fromhex(desc["zdict"]))
        else:
            co = zlib.compressobj(desc["level"], zlib.DEFLATED, desc["wbits"], desc.get("mem", 8), desc["strategy"])
        if desc.get("flush"):
            step, out = desc["flush"], []
            for i in range(0, max(len(p), 1), step):
                out.append(co.compress(p[i:i + step]))
                out.append(co.flush(zlib.Z_FULL_FLUSH if (i // step) % 2 else zlib.Z_SYNC_FLUSH))
            out.append(co.flush())
            s = b"".join(out)
        else:
            s = co.compress(p) + co.flush()
        if desc.get("hwrap"):            # raw stream put by hand behind the default zlib header, Adler-32 appended
            s = ZHEAD + s + struct.pack(">I", zlib.adler32(p))
    elif how == "stored":
        s = stored_stream(p, desc["sizes"], desc.get("pad", 0))
        if desc.get("wrap"):
            s = ZHEAD + s + struct.pack(">I", zlib.adler32(p))
    else:
        raise ValueError(how)
    if desc.get("trunc") is not None:
        s = s[:max(0, len(s) - desc["trunc"])]
    if desc.get("flip") is not None:
        pos = desc["flip"] % max(len(s), 1)
        s = s[:pos] + bytes([s[pos] ^ 0x5A]) + s[pos + 1:] if s else s
    if desc.get("tailjunk"):
        s = s + bytes.fromhex(desc["tailjunk"])
    return s, p


# ---------------------------------------------------------------------------
# reference inflater (independent of joserfc): the whole output zlib determines
# ---------------------------------------------------------------------------
HEADCAP = 3 << 20


def ref_inflate(wbits, s):
    """-> None (zlib.error) or (head, total_len, eof): head = first HEADCAP octets"""
    d = zlib.decompressobj(wbits)
    head, total, buf = bytearray(), 0, s
    CH = 1 << 20
    try:
        while True:
            out = d.decompress(buf, CH)
            total += len(out)
            if len(head) < HEADCAP:
                head += out[:HEADCAP - len(head)]
            buf = d.unconsumed_tail
            if d.eof or (len(out) < CH and not buf):     # (at eof zlib leaves the rest in unused_data AND unconsumed_tail)
                break
    except zlib.error:
        return None
    return bytes(head), total, d.eof


def limited(wbits, s, m):
    d = zlib.decompressobj(wbits)
    try:
        out = d.decompress(s, m)
    except zlib.error as e:
        return ("err", e)
    return ("ok", out, bool(d.unconsumed_tail), d.eof)


# ---------------------------------------------------------------------------
# instrumentation (in this process only)
# ---------------------------------------------------------------------------
class DProxy:
    def __init__(self, real, wbits, plain, log):
        self._r, self._w, self._plain, self._log = real, wbits, plain, log

    def decompress(self, data, max_length=0):
        try:
            out = self._r.decompress(data, max_length)
        except BaseException as e:
            self._log.append(("inflate", self._w if self._plain else None, bytes(data), max_length, ("err", e)))
            raise
        self._log.append(("inflate", self._w if self._plain else None, bytes(data), max_length,
                          ("ok", out, bool(self._r.unconsumed_tail), self._r.eof)))
        return out

    def flush(self, *a):
        self._log.append(("other", "flush"))
        return self._r.flush(*a)

    def copy(self):
        self._log.append(("other", "copy"))
        return DProxy(self._r.copy(), self._w, self._plain, self._log)

    unconsumed_tail = property(lambda self: self._r.unconsumed_tail)
    unused_data = property(lambda self: self._r.unused_data)
    eof = property(lambda self: self._r.eof)


class ZProxy:
    """stands in for the name `zlib` inside joserfc.rfc7518.jwe_zips"""

    def __init__(self):
        self.log = []

    def __getattr__(self, name):
        return getattr(zlib, name)

    def compress(self, data, *a, **k):
        r = zlib.compress(data, *a, **k)
        self.log.append(("compress", bytes(data), (a, k), r))
        return r

    def decompress(self, data, *a, **k):
        self.log.append(("other", "one-shot decompress"))
        return zlib.decompress(data, *a, **k)

    def compressobj(self, *a, **k):
        self.log.append(("other", "compressobj"))
        return zlib.compressobj(*a, **k)

    def decompressobj(self, *a, **k):
        wbits = a[0] if a else k.get("wbits", zlib.MAX_WBITS)
        plain = len(a) <= 1 and set(k) <= {"wbits"}
        return DProxy(zlib.decompressobj(*a, **k), wbits, plain, self.log)


class Instr:
    """records zlib use of jwe_zips, enc.decrypt and zip.decompress calls"""

    def __init__(self):
        from joserfc.rfc7518 import jwe_zips
        from joserfc.rfc7516.registry import JWERegistry
        self.mod, self.reg = jwe_zips, JWERegistry
        self.z = ZProxy()
        self.calls = []
        self.zipmodel = JWERegistry.algorithms["zip"]["DEF"]

    def __enter__(self):
        self.mod.zlib = self.z
        for enc in self.reg.algorithms["enc"].values():
            enc.decrypt = self._wrap_decrypt(enc, type(enc).decrypt)
            enc.encrypt = self._wrap_encrypt(enc, type(enc).encrypt)
        self.zipmodel.decompress = self._wrap_decompress(type(self.zipmodel).decompress)
        return self

    def __exit__(self, *a):
        self.mod.zlib = zlib
        for enc in self.reg.algorithms["enc"].values():
            enc.__dict__.pop("decrypt", None)
            enc.__dict__.pop("encrypt", None)
        self.zipmodel.__dict__.pop("decompress", None)
        self.zipmodel.__dict__.pop("compress", None)

    def reset(self):
        self.z.log = self.log = []
        self.calls = self.log

    def _wrap_decrypt(self, enc, f):
        def decrypt(*a, **k):
            try:
                r = f(enc, *a, **k)
            except BaseException as e:
                self.z.log.append(("decrypt", enc.name, ("err", e)))
                raise
            self.z.log.append(("decrypt", enc.name, ("ok", r)))
            return r
        return decrypt

    def _wrap_encrypt(self, enc, f):
        def encrypt(plaintext, *a, **k):
            self.z.log.append(("encrypt", enc.name, bytes(plaintext)))
            return f(enc, plaintext, *a, **k)
        return encrypt

    def _wrap_decompress(self, f):
        def decompress(s):
            self.z.log.append(("decompress-enter", s))
            return f(self.zipmodel, s)
        return decompress


def call(f, *a, **k):
    try:
        return ("ok", f(*a, **k))
    except BaseException as e:  # noqa
        return ("err", e)


def c_res_spec(r, spf):
    if r[0] == "ok":
        sp = spf(r[1])
        return None if sp is None else "(Ok %s)" % spec_term(sp)
    return "(Err %s)" % c_exn(exn_class(r[1]))


def c_ans(ans, spf):
    if ans[0] == "err":
        return "(Err %s)" % c_exn(exn_class(ans[1]))
    sp = spf(ans[1])
    if sp is None:
        return None
    return "(Ok (%s, %s, %s))" % (spec_term(sp), c_bool(ans[2]), c_bool(ans[3]))


def events_term(log, spf):
    """recorded log -> Coq list of zrec (None when some octet string has no compact form)"""
    out = []
    for e in log:
        if e[0] == "decrypt":
            out.append("RDecrypt")
        elif e[0] == "inflate":
            if e[1] is None or not isinstance(e[3], int):
                out.append("ROther"); continue
            d = spf(e[2]); a = c_ans(e[4], spf)
            if d is None or a is None:
                return None
            out.append("(RInflate %s %s %s %s)" % (c_Z(e[1]), spec_term(d), c_Z(e[3]), a))
        elif e[0] == "other":
            out.append("ROther")
    return c_list(out)


_NUM_RE = None


def share_literals(term):
    """bind octet-string literals that occur more than once in a case to one `let`
    (parsing literals dominates the cost of evaluating the cases)"""
    import re
    global _NUM_RE
    if _NUM_RE is None:
        _NUM_RE = re.compile(r"\(SNum 0x[0-9a-f]+\)")
    seen, dup = {}, []
    for m in _NUM_RE.finditer(term):
        tok = m.group(0)
        if len(tok) < 48:
            continue
        seen[tok] = seen.get(tok, 0) + 1
        if seen[tok] == 2:
            dup.append(tok)
    if not dup:
        return term
    binds = ""
    for i, tok in enumerate(dup):
        term = term.replace(tok, "lit%d" % i)
        binds += "let lit%d := %s in " % (i, tok)
    return "(%s%s)" % (binds, term)


def shard_bounds(cases, shard, max_chars):
    """the sharding rule of lib.CoqEval.run (to re-run shards that were killed)"""
    bounds, start, size = [], 0, 0
    for i, c in enumerate(cases):
        if i > start and (i - start >= shard or size + len(c) > max_chars):
            bounds.append((start, i)); start, size = i, 0
        size += len(c)
    if cases:
        bounds.append((start, len(cases)))
    return bounds


def short(b, n=24):
    return b[:n].hex() + ("..(%d octets)" % len(b) if len(b) > n else "")


# ---------------------------------------------------------------------------
MEM_SCRIPT = r"""
import sys, json, tracemalloc, resource
from joserfc.rfc7518.jwe_zips import DeflateZipModel
from joserfc.errors import ExceededSizeError
from joserfc import jwe
from joserfc.jwk import OctKey
mode, path = sys.argv[1], sys.argv[2]
s = open(path, 'rb').read()
m = DeflateZipModel()
m.decompress(m.compress(b'warm up' * 100))
key = OctKey.import_key(b'0123456789abcdef')
if mode == 'jwe':
    m0 = type(m).compress
    reg = jwe.JWERegistry.algorithms['zip']['DEF']
    reg.compress = lambda p: s
    token = jwe.encrypt_compact({'alg': 'dir', 'enc': 'A128GCM', 'zip': 'DEF'}, b'x', key)
    del reg.__dict__['compress']
    jwe.decrypt_compact(jwe.encrypt_compact({'alg': 'dir', 'enc': 'A128GCM', 'zip': 'DEF'}, b'warm', key), key)
r0 = resource.getrusage(resource.RUSAGE_SELF).ru_maxrss
tracemalloc.start()
try:
    v = m.decompress(s) if mode == 'zip' else jwe.decrypt_compact(token, key).plaintext
    out = ['ok', len(v)]
except ExceededSizeError:
    out = ['exceeded']
except BaseException as e:
    out = ['other', type(e).__name__]
cur, peak = tracemalloc.get_traced_memory()
r1 = resource.getrusage(resource.RUSAGE_SELF).ru_maxrss
print(json.dumps({'out': out, 'peak': peak, 'rss_delta_kib': r1 - r0, 'stream': len(s)}))
"""


def measure_memory(stream, mode):
    with tempfile.NamedTemporaryFile(prefix="c17-stream-", delete=False) as f:
        f.write(stream)
        path = f.name
    try:
        rc, out, dt = lib.run([lib.PY, "-c", MEM_SCRIPT, mode, path], 600, env=lib.child_env())
        if rc != 0:
            return {"error": out[-800:]}
        return json.loads(out.strip().splitlines()[-1])
    finally:
        os.unlink(path)


# ---------------------------------------------------------------------------
def direct_verdict(s, ref_raw, ref_wrapped, r):
    """The property itself on one decompress outcome r (independent of the model).
    -> list of (kind, text).  ref_* = ref_inflate(-15 / 15, s)."""
    bad = []
    wrapped = s.startswith(ZHEAD)
    ref = ref_wrapped if wrapped else ref_raw
    if r[0] == "ok":
        v = r[1]
        if not isinstance(v, (bytes, bytearray)):
            return [("bad-type", "decompress returned %r" % type(v))]
        if len(v) > LIMIT:
            bad.append(("over-limit-returned", "decompress returned %d octets (> %d)" % (len(v), LIMIT)))
    if ref is None:
        return bad
    head, total, eof = ref
    if not eof:
        return bad                      # incomplete stream: only the bound is demanded
    if total <= LIMIT:
        if r[0] != "ok":
            bad.append(("within-limit-rejected",
                        "a complete %s stream expanding to %d octets (<= %d) raised %s" % (
                            "zlib-wrapped" if wrapped else "raw", total, LIMIT, exn_class(r[1]))))
        elif bytes(r[1]) != head[:total]:
            kind = "truncated-return" if len(r[1]) < total and head.startswith(bytes(r[1])) else "wrong-plaintext"
            bad.append((kind, "stream expands to %d octets but %d were returned" % (total, len(r[1]))))
    else:
        if r[0] == "ok":
            kind = "truncated-return" if head.startswith(bytes(r[1])) else "wrong-plaintext"
            bad.append((kind, "stream expands to %d octets (> %d) but decompress returned %d octets "
                              "instead of raising ExceededSizeError" % (total, LIMIT, len(r[1]))))
        elif exn_class(r[1]) != "EJose ExceededSizeError":
            bad.append(("exceeded-not-raised", "stream expands to %d octets (> %d) but %s was raised" % (
                total, LIMIT, exn_class(r[1]))))
    return bad


def run(ctx):
    from joserfc import jwe
    from joserfc.jwk import OctKey
    from joserfc.rfc7518 import jwe_zips
    from joserfc.rfc7516.registry import JWERegistry
    rng = ctx.rng
    import time as _time
    timing, _t0 = {}, [_time.time()]

    def tick(label):
        now = _time.time()
        timing[label] = round(timing.get(label, 0) + now - _t0[0], 1)
        _t0[0] = now
    ok, log = ctx.prove(extra_targets=["model/C17Cases.vo"])
    tick("prove")

    cases, meta = [], []
    dist = {}
    skipped_big = [0]
    specs = SpecCache()

    def bump(k):
        dist[k] = dist.get(k, 0) + 1

    def add(term, m):
        cases.append(share_literals(term)); meta.append(m)

    impl_head = bytes(jwe_zips.GZIP_HEAD)
    impl_max = jwe_zips.MAX_SIZE
    lcg_big = lcg_source(300000)

    def spf_for(desc):
        src = None
        if desc and desc["data"]["cls"] == "lcg":
            src = lcg_source(desc["data"]["n"])
        return lambda b: specs.get(b, src)

    contract_bad = [0]

    def contract_case(wbits, s, m, ref, spf, desc, in_coq=True):
        """one instance of Z1/Z2 on the real zlib (Python check + Coq instance)"""
        lim = limited(wbits, s, m)
        bump("contract")
        ctx.note_case(("contract", wbits, len(s), zlib.adler32(s), m))
        why = None
        if lim[0] == "ok":
            out, tail, eof = lim[1], lim[2], lim[3]
            if len(out) > m:
                why = "Z1: %d octets returned for max_length=%d" % (len(out), m)
            elif ref is None:
                pass
            else:
                head, total, eofx = ref
                if m <= HEADCAP and out != head[:m]:
                    why = "Z2: limited output is not the first %d octets of the full output" % m
                elif total < m and (tail or eof != eofx):
                    why = "Z2: full output %d < max_length %d but tail=%r eof=%r (full eof=%r)" % (total, m, tail, eof, eofx)
        elif ref is not None:
            why = "Z2: unlimited inflate succeeds but the limited call raised"
        if why:
            contract_bad[0] += 1
            ctx.violation({"kind": "zlib-contract"}, "the real zlib violates the assumed contract: " + why,
                          {"fn": "contract", "stream": desc, "wbits": wbits, "max": m,
                           "no_failing_input_found": True, "broken": "assumption zlib_ok of props/C17.v"})
        if in_coq and (ref is None or ref[1] <= HEADCAP):
            full = "None" if ref is None else None
            if ref is not None:
                sp = spf(ref[0][:ref[1]])
                full = None if sp is None else "(Some (%s, %s))" % (spec_term(sp), c_bool(ref[2]))
            ans = c_ans(lim if lim[0] == "err" else ("ok", lim[1], lim[2], lim[3]), spf)
            if full is None or ans is None:
                skipped_big[0] += 1
            else:
                add("CContract %s %s %s" % (c_N(m), full, ans), ("contract", desc, wbits, m))

    findings = {"incomplete_prefix_returned": 0, "raw_prefix_gap": 0, "zlib_error_escapes": 0}
    notes_samples = {}

    with Instr() as ins:
        zipm = ins.zipmodel

        hist_pool = []

        def verdict_key(r):
            return ("ok", len(r[1]), zlib.adler32(r[1])) if r[0] == "ok" else ("err", exn_class(r[1]))

        def run_decompress(s, desc, coq=True, contract_ms=(), contract_coq=None):
            """real decompress on s + direct oracle + correspondence case"""
            ins.reset()
            r = call(zipm.decompress, s)
            logx = list(ins.log)
            bump("decompress_" + ("ok" if r[0] == "ok" else exn_class(r[1]).replace("EJose ", "")))
            ctx.note_case(("decompress", len(s), zlib.adler32(s)))
            ref_raw = ref_inflate(-15, s)
            ref_w = ref_inflate(15, s) if s.startswith(ZHEAD) else None
            for kind, text in direct_verdict(s, ref_raw, ref_w, r):
                ctx.violation({"kind": kind}, "DeflateZipModel.decompress: %s [stream %s]" % (text, json.dumps(desc)[:200]),
                              {"fn": "decompress", "stream": desc, "stream_hex": s.hex() if len(s) <= 4096 else None})
            wrapped = s.startswith(ZHEAD)
            ref = ref_w if wrapped else ref_raw
            # recorded candidates (not demanded by the property text)
            if ref is not None and not ref[2] and r[0] == "ok":
                findings["incomplete_prefix_returned"] += 1
                notes_samples.setdefault("incomplete", {"stream": desc, "returned": len(r[1]),
                                                        "note": "incomplete DEFLATE stream: prefix returned, no error"})
            if r[0] == "err" and not lib.is_allowed_exn(r[1]):
                findings["zlib_error_escapes"] += 1
            if wrapped and ref_raw is not None and ref_raw[2] and (r[0] != "ok" or r[1] != ref_raw[0][:ref_raw[1]]):
                findings["raw_prefix_gap"] += 1
                notes_samples.setdefault("raw_prefix_gap", {
                    "stream_hex": short(s, 40), "raw_expansion_len": ref_raw[1],
                    "impl": "ok %d" % len(r[1]) if r[0] == "ok" else exn_class(r[1])})
            if len(s) <= 70000 and len(hist_pool) < 6000:
                hist_pool.append((s, desc, verdict_key(r)))
            spf = spf_for(desc)
            if coq:
                ssp = spf(s)
                ev_t = events_term(logx, spf) if ssp is not None else None
                ex_t = c_res_spec(r, spf) if ev_t is not None else None
                if ssp is None or ev_t is None or ex_t is None:
                    skipped_big[0] += 1
                else:
                    add("CDecomp %s %s %s" % (spec_term(ssp), ev_t, ex_t), ("decompress", desc))
            wb = 15 if wrapped else -15
            for m in contract_ms:
                contract_case(wb, s, m, ref, spf, desc, in_coq=coq if contract_coq is None else contract_coq)
            return r, ref

        def run_compress(p, desc, coq=True):
            ins.reset()
            r = call(zipm.compress, p)
            logx = list(ins.log)
            bump("compress")
            ctx.note_case(("compress", len(p), zlib.adler32(p)))
            if r[0] != "ok" or not isinstance(r[1], (bytes, bytearray)):
                ctx.violation({"kind": "compress-raises"}, "DeflateZipModel.compress raised %r on %s" % (r[1], json.dumps(desc)),
                              {"fn": "compress", "data": desc})
                return None
            c = bytes(r[1])
            # direct: a raw RFC 1951 stream — inflates with wbits=-15 to p, reaches the end
            # of the stream, and nothing (no checksum) follows it; no zlib header in front
            d = zlib.decompressobj(-15)
            rr = call(d.decompress, c)
            if rr[0] != "ok" or rr[1] != p or not d.eof or d.unused_data:
                ctx.violation({"kind": "compress-not-raw"},
                              "compress(p) is not exactly one raw DEFLATE stream of p (|p|=%d): %s" % (
                                  len(p), "trailing octets " + short(d.unused_data) if rr[0] == "ok" and rr[1] == p
                                  else "raw inflate gives " + (exn_class(rr[1]) if rr[0] == "err" else "other data")),
                              {"fn": "compress", "data": desc, "out_head": short(c, 16)})
            if c.startswith(ZHEAD):
                # assumption Z5 fails (or a header is emitted): report the shape
                ctx.violation({"kind": "c17_raw_prefix_gap"},
                              "compress(p) begins with the zlib header octets 78 9C (|p|=%d, first octets %s)" % (len(p), short(c, 8)),
                              {"fn": "compress", "data": desc, "out_head": short(c, 16)})
            # contract Z3..Z6 on the real zlib
            zc = zlib.compress(p)
            rawd = zc[2:-4]
            okc = (len(zc) >= 6 and ref_inflate(-15, rawd) == (p[:HEADCAP], len(p), True)
                   and not rawd.startswith(impl_head) and zc.startswith(impl_head)
                   and ref_inflate(15, zc) == (p[:HEADCAP], len(p), True)
                   and zc[-4:] == struct.pack(">I", zlib.adler32(p)))
            if not okc:
                kind = "c17_raw_prefix_gap" if rawd.startswith(impl_head) else "zlib-contract"
                ctx.violation({"kind": kind}, "zlib.compress does not have the assumed shape header(2) ++ raw ++ adler(4) "
                              "with raw not beginning with GZIP_HEAD (|p|=%d, raw head %s)" % (len(p), short(rawd, 8)),
                              {"fn": "contract-compress", "data": desc, "no_failing_input_found": True,
                               "broken": "assumption zlib_ok (Z3-Z6) of props/C17.v"})
            if c != rawd:
                # the model's definition evaluated in Python (covers plaintexts that have no compact Coq form)
                ctx.violation({"kind": "correspondence", "fn": "compress"},
                              "compress(p) differs from zlib.compress(p)[2:-4] (|p|=%d: %s.. vs %s..)" % (
                                  len(p), c[:4].hex(), rawd[:4].hex()),
                              {"fn": "compress", "data": desc, "out_head": short(c, 16),
                               "broken": "correspondence model/C17Zip.v:compress vs jwe_zips.compress"})
            if coq:
                src = lcg_source(len(p)) if desc["cls"] == "lcg" else None
                psp = specs.get(p, src)
                zlog = [e for e in logx if e[0] == "compress"]
                others = [e for e in logx if e[0] != "compress"]
                if len(zlog) == 1 and not others and zlog[0][1] == p and zlog[0][2] == ((), {}):
                    zsp = specs.get(zlog[0][3], src)
                else:
                    zsp = ("lit", b"")          # the implementation did not call zlib.compress(p): model will disagree
                esp = specs.get(c, src)
                if psp is None or zsp is None or esp is None:
                    skipped_big[0] += 1
                else:
                    add("CComp %s %s %s" % (spec_term(psp), spec_term(zsp), spec_term(esp)), ("compress", desc))
            return c

        def roundtrip(desc, coq=True, contract_ms=(), contract_coq=None, comp_coq=None):
            p = data_of(desc)
            c = run_compress(p, desc, coq if comp_coq is None else comp_coq)
            if c is None:
                return
            sdesc = {"data": desc, "how": "impl"}
            r, ref = run_decompress(c, sdesc, coq, contract_ms, contract_coq)
            if len(p) <= LIMIT:
                if r[0] != "ok" or bytes(r[1]) != p:
                    ctx.violation({"kind": "roundtrip"},
                                  "decompress(compress(p)) != p for |p|=%d (%s): got %s" % (
                                      len(p), desc["cls"], "%d octets" % len(r[1]) if r[0] == "ok" else exn_class(r[1])),
                                  {"fn": "roundtrip", "data": desc})
            else:
                if r[0] == "ok" or exn_class(r[1]) != "EJose ExceededSizeError":
                    ctx.violation({"kind": "exceeded-not-raised" if r[0] == "err" else "truncated-return"},
                                  "decompress(compress(p)) for |p|=%d (> %d, %s) gave %s instead of ExceededSizeError" % (
                                      len(p), LIMIT, desc["cls"], "%d octets" % len(r[1]) if r[0] == "ok" else exn_class(r[1])),
                                  {"fn": "roundtrip", "data": desc})

        # ---- A. table values against the literals of the property text
        if impl_max != LIMIT:
            ctx.violation({"kind": "limit-value"}, "MAX_SIZE is %d, the property says 256000" % impl_max,
                          {"fn": "table", "MAX_SIZE": impl_max})
        if impl_head != ZHEAD:
            ctx.violation({"kind": "gzip-head-value"}, "GZIP_HEAD is %s, the default zlib header is 789c" % impl_head.hex(),
                          {"fn": "table", "GZIP_HEAD": impl_head.hex()})

        # ---- B. the boundary region, every length, three compressibility classes
        pat = bytes(rng.randrange(256) for _ in range(rng.choice([3, 5, 7, 11, 13])))
        cbyte = rng.choice([0, 104, 255, rng.randrange(256)])
        lengths = list(range(255990, 256301))
        key_lengths = {LIMIT - 1, LIMIT, LIMIT + 1, LIMIT + 2, LIMIT + 257, LIMIT + 258, LIMIT + 259}
        lcg_lengths = set(range(255995, 256006)) | set(range(256250, 256265)) | {255990, 256300}
        if ctx.quick:
            lcg_lengths |= set(rng.sample(lengths, 24))
            lcg_coq = key_lengths | set(rng.sample(sorted(lcg_lengths), 5))
        else:
            lcg_lengths = set(lengths)
            lcg_coq = set(n for n in lengths if n % 8 == 0) | key_lengths
        for n in lengths:
            near = abs(n - LIMIT) <= 3 or 256255 <= n <= 256260
            ms = (LIMIT + 1, LIMIT, n, n + 1, max(n - 1, 1)) if near or (n % 10 == 0 and not ctx.quick) else (LIMIT + 1,)
            roundtrip({"cls": "const", "c": cbyte, "n": n}, contract_ms=ms,
                      contract_coq=near or n % 20 == 0 or not ctx.quick, comp_coq=near or n % 20 == 10 or not ctx.quick)
            roundtrip({"cls": "periodic", "pat": pat.hex(), "n": n}, contract_ms=(LIMIT + 1,),
                      contract_coq=near or n % 20 == 5 or not ctx.quick, comp_coq=near or n % 20 == 15 or not ctx.quick)
            if n in lcg_lengths:
                roundtrip({"cls": "lcg", "n": n}, coq=n in lcg_coq, contract_ms=(LIMIT + 1,), contract_coq=n in key_lengths)
        tick("B")
        # ---- C. small and assorted lengths, all classes
        small = [0, 1, 2, 3, 5, 6, 7, 10, 100, 255, 256, 257, 258, 259, 1000, 32767, 32768, 32769, 65535, 65536, 65537,
                 100000, 200000, 255000]
        for n in small + [rng.randrange(0, 5000) for _ in range(ctx.scale(24, 300))] + \
                [rng.randrange(5000, LIMIT) for _ in range(ctx.scale(6, 80))]:
            cls = rng.choice(["const", "periodic", "lcg"]) if n not in small else None
            for c in ([cls] if cls else ["const", "periodic", "lcg"]):
                d = {"cls": c, "n": n}
                if c == "const":
                    d["c"] = rng.randrange(256)
                if c == "periodic":
                    d["pat"] = bytes(rng.randrange(256) for _ in range(rng.randrange(2, 40))).hex()
                roundtrip(d, contract_ms=(LIMIT + 1, max(1, n // 2), n + 1) if n < 70000 else (LIMIT + 1,),
                          contract_coq=(n in small and c != "lcg") or not ctx.quick)
        # short literal plaintexts (text-like, random)
        for _ in range(ctx.scale(70, 1000)):
            ln = rng.choice([0, 1, 2, 3, 4, 8, 16, 31, 64, 100, 300, 700])
            kind = rng.randrange(3)
            if kind == 0:
                p = bytes(rng.randrange(256) for _ in range(ln))
            elif kind == 1:
                p = bytes(rng.choice(b"abcde {}\":,0123") for _ in range(ln))
            else:
                p = (ZHEAD + bytes(rng.randrange(256) for _ in range(ln)))     # plaintexts that begin with 78 9C
            roundtrip({"cls": "lit", "hex": p.hex(), "n": len(p)},
                      contract_ms=(LIMIT + 1, rng.choice([1, max(1, len(p)), max(1, len(p) // 2)])), contract_coq=rng.randrange(3) == 0)

        tick("C")
        # ---- D. over-limit plaintexts far from the boundary, high ratios
        for n in [256512, 262144, 300000, 1 << 20]:
            roundtrip({"cls": "const", "c": 104, "n": n})
            roundtrip({"cls": "periodic", "pat": pat.hex(), "n": n})
        roundtrip({"cls": "lcg", "n": 1 << 20}, coq=False)
        roundtrip({"cls": "lcg", "n": 300000})

        tick("D")
        # ---- E. foreign streams
        def foreign(desc, coq=True, contract_ms=(LIMIT + 1,), contract_coq=None):
            s, p = build_stream(desc, zipm)
            bump("foreign_" + desc["how"])
            return run_decompress(s, desc, coq, contract_ms, contract_coq)

        strategies = [zlib.Z_DEFAULT_STRATEGY, zlib.Z_FILTERED, zlib.Z_HUFFMAN_ONLY, zlib.Z_RLE, zlib.Z_FIXED]
        f_lengths = [0, 1, 300, 70000, LIMIT - 1, LIMIT, LIMIT + 1, LIMIT + 2, LIMIT + 257, LIMIT + 258, LIMIT + 259, 300000]
        combos = [(lv, wb, st) for lv in range(-1, 10) for wb in (-15, 15) for st in strategies]
        if ctx.quick:
            combos = rng.sample(combos, 20) + [(6, 15, 0), (6, -15, 0), (-1, 15, 0), (9, 15, 0), (0, -15, 0), (0, 15, 0), (1, 15, 0)]
        for (lv, wb, st) in combos:
            ns = rng.sample(f_lengths, ctx.scale(3, 6)) + [rng.choice([LIMIT, LIMIT + 1])]
            for n in ns:
                c = rng.choice(["const", "periodic", "const", "periodic", "const", "periodic", "lcg"])
                d = {"cls": c, "n": n}
                if c == "const":
                    d["c"] = cbyte
                if c == "periodic":
                    d["pat"] = pat.hex()
                desc = {"data": d, "how": "obj", "level": lv, "wbits": wb, "strategy": st,
                        "mem": rng.choice([8, 8, 1, 9])}
                if rng.randrange(5) == 0 and n > 0:
                    desc["flush"] = rng.choice([1000, 65536, 100000])
                foreign(desc, contract_coq=rng.randrange(2) == 0 or not ctx.quick)
        # hand-assembled stored blocks (zero, random and maximal sizes; wrapped or raw)
        for _ in range(ctx.scale(25, 200)):
            n = rng.choice([0, 1, 5, 65535, 65536, 70000, LIMIT - 1, LIMIT, LIMIT + 1, LIMIT + 258, 300000])
            c = rng.choice(["const", "periodic", "const", "periodic", "lcg"])
            d = {"cls": c, "n": n}
            if c == "const":
                d["c"] = cbyte
            if c == "periodic":
                d["pat"] = pat.hex()
            sizes = rng.choice([[65535], [1, 65535], [0, 40000], [rng.randrange(1, 65536) for _ in range(3)], [32768]])
            foreign({"data": d, "how": "stored", "sizes": sizes, "wrap": rng.randrange(3) == 0,
                     "pad": 0})
        # malformed authenticated streams: truncated, corrupted, trailing octets
        for _ in range(ctx.scale(45, 400)):
            n = rng.choice([10, 300, 5120, 70000, LIMIT, LIMIT + 1, LIMIT + 300, 300000])
            c = rng.choice(["const", "periodic", "const", "periodic", "lcg"])
            d = {"cls": c, "n": n}
            if c == "const":
                d["c"] = cbyte
            if c == "periodic":
                d["pat"] = pat.hex()
            desc = {"data": d, "how": rng.choice(["obj", "obj", "stored"]), "level": rng.choice([-1, 1, 6, 9]),
                    "wbits": rng.choice([-15, 15]), "strategy": 0, "sizes": [rng.randrange(1, 65536)],
                    "wrap": rng.randrange(2) == 0}
            k = rng.randrange(3)
            if k == 0:
                desc["trunc"] = rng.choice([1, 2, 3, 4, 5, 8, 20, 100])
            elif k == 1:
                desc["flip"] = rng.randrange(1 << 20)
            else:
                desc["tailjunk"] = bytes(rng.randrange(256) for _ in range(rng.randrange(1, 9))).hex()
            foreign(desc)
        # empty input and tiny non-streams
        for hx in ["", "00", "78", "789c", "789c03", "0300", "03", "789c0300000001", "01", "0100", "010000ffff",
                   "78da0300000001", "78010300000001", "785e0300000001", "1f8b0800"]:
            foreign({"data": {"cls": "lit", "hex": "", "n": 0}, "how": "stored", "sizes": [1], "trunc": 5,
                     "tailjunk": hx}, contract_ms=(LIMIT + 1, 1))
        # ---- E2. both sides of the boundary for EVERY stream class: stored / fixed Huffman / dynamic Huffman /
        # Huffman-only / RLE / multi-block, raw and behind the default zlib header, with and without trailing octets
        # after the final block; expansion exactly 255999, 256000, 256001 and 262144, 262145 (= 256 KiB, +1)
        classes = [("stored", {"how": "stored", "sizes": [65535]}),
                   ("stored-small-blocks", {"how": "stored", "sizes": [1, 4000, 65535]}),
                   ("fixed", {"how": "obj", "level": 6, "wbits": -15, "strategy": zlib.Z_FIXED}),
                   ("dynamic", {"how": "obj", "level": 6, "wbits": -15, "strategy": 0}),
                   ("dynamic-9", {"how": "obj", "level": 9, "wbits": -15, "strategy": 0}),
                   ("huffman-only", {"how": "obj", "level": 6, "wbits": -15, "strategy": zlib.Z_HUFFMAN_ONLY}),
                   ("rle", {"how": "obj", "level": 6, "wbits": -15, "strategy": zlib.Z_RLE}),
                   ("multi-block", {"how": "obj", "level": 6, "wbits": -15, "strategy": 0, "flush": 50000}),
                   ("level-0", {"how": "obj", "level": 0, "wbits": -15, "strategy": 0})]
        for cname, base in classes:
            for n in (LIMIT - 1, LIMIT, LIMIT + 1, 262144, 262145):
                for wrapd in (False, True):
                    for junk in ((None, "00", "deadbeef01") if not ctx.quick else (None, rng.choice(["00", "deadbeef01", "789c"]))):
                        if ctx.quick and junk is not None and n in (262144, 262145):
                            continue
                        d = {"cls": "periodic", "pat": pat.hex(), "n": n} if rng.randrange(2) else {"cls": "const", "c": cbyte, "n": n}
                        desc = dict(base, data=d)
                        if wrapd:
                            desc["wrap" if base["how"] == "stored" else "hwrap"] = True
                        if junk:
                            desc["tailjunk"] = junk
                        bump("boundary_" + cname)
                        foreign(desc, coq=junk is None or not ctx.quick, contract_coq=False)
        # two complete streams back to back (the second one ignored? bounded?), either of them a bomb
        small_raw = zlib.compress(b"first stream " * 20)[2:-4]
        bomb_raw = zeros_stream(4 << 20, -15)
        for first, second, lab in [(small_raw, bomb_raw, "small+bomb"), (small_raw, small_raw, "small+small"),
                                   (ZHEAD + small_raw + struct.pack(">I", zlib.adler32(b"first stream " * 20)), bomb_raw, "wrapped+bomb"),
                                   (bomb_raw, small_raw, "bomb+small"), (small_raw, ZHEAD + small_raw, "small+wrapped")]:
            bump("concatenated")
            run_decompress(first + second, {"data": {"cls": "lit", "hex": "", "n": 0}, "how": "concat", "label": lab,
                                            "hex": (first + second).hex()},
                           coq=len(first + second) <= 1500, contract_ms=(LIMIT + 1,), contract_coq=False)
        # preset dictionary: zlib header with FDICT (never 78 9C) and raw streams that refer to a dictionary
        for wb in (15, -15):
            for n in (300, LIMIT + 1):
                bump("preset_dictionary")
                foreign({"data": {"cls": "periodic", "pat": pat.hex(), "n": n}, "how": "obj", "level": 6, "wbits": wb,
                         "strategy": 0, "zdict": (pat * 20).hex()}, contract_coq=False)
        # a short stream cut at EVERY prefix length (raw and behind the default header)
        text = bytes(rng.choice(b"abcdefgh {}:,\"0123") for _ in range(ctx.scale(90, 400)))
        for wb in (-15, 15):
            full = build_stream({"data": {"cls": "lit", "hex": text.hex(), "n": len(text)}, "how": "obj", "level": 6,
                                 "wbits": wb, "strategy": 0})[0]
            for k in range(1, len(full) + 1):
                bump("every_prefix")
                foreign({"data": {"cls": "lit", "hex": text.hex(), "n": len(text)}, "how": "obj", "level": 6,
                         "wbits": wb, "strategy": 0, "trunc": k}, coq=k % 3 == 0 or k < 8 or not ctx.quick,
                        contract_ms=(LIMIT + 1,) if k % 7 == 0 else (), contract_coq=False)
        # the raw-prefix gap: a valid raw stream whose first stored block makes it begin with 78 9C
        gap_payload = bytes(rng.randrange(256) for _ in range(0x9C))
        gap = bytes([0x78]) + struct.pack("<HH", 0x9C, 0x9C ^ 0xFFFF) + gap_payload + b"\x01\x00\x00\xff\xff"
        ins.reset()
        rg = call(zipm.decompress, gap)
        refg = ref_inflate(-15, gap)
        if refg is not None and refg[2] and (rg[0] != "ok" or rg[1] != gap_payload):
            findings["raw_prefix_gap"] += 1
            notes_samples["raw_prefix_gap"] = {
                "shape": "78 9C 00 63 FF <156 octets> 01 00 00 FF FF : a valid raw RFC 1951 stream (non-final stored block, "
                         "padding bits 01111, LEN=0x009C) is taken for a zlib-wrapped stream",
                "raw_expansion_len": refg[1], "impl": "ok %d" % len(rg[1]) if rg[0] == "ok" else exn_class(rg[1])}
        bump("gap_probe")

        tick("E")
        # ---- F. huge expansions (ratio ~1000:1) and peak memory
        zn = ctx.scale(64, 512) << 20
        for wb in (-15, 15):
            desc = {"data": {"cls": "zeros", "n": zn}, "how": "zeros", "wbits": wb}
            s, _ = build_stream(desc)
            bump("huge")
            ins.reset()
            r = call(zipm.decompress, s)
            logx = list(ins.log)
            ctx.note_case(("huge", wb, zn))
            if r[0] == "ok" or exn_class(r[1]) != "EJose ExceededSizeError":
                ctx.violation({"kind": "exceeded-not-raised" if r[0] == "err" else "truncated-return"},
                              "a %d-octet stream expanding to %d MiB of zeros gave %s" % (
                                  len(s), zn >> 20, "%d octets" % len(r[1]) if r[0] == "ok" else exn_class(r[1])),
                              {"fn": "decompress", "stream": desc})
            asked = [e for e in logx if e[0] == "inflate"]
            total_out = sum(len(e[4][1]) for e in asked if e[4][0] == "ok")
            if total_out > LIMIT + 1 or any(e[3] <= 0 or e[3] > LIMIT + 1 for e in asked) or \
                    any(e[0] == "other" for e in logx):
                ctx.violation({"kind": "memory"},
                              "decompress materialised %d octets from zlib for a stream expanding to %d MiB "
                              "(max_length arguments %r)" % (total_out, zn >> 20, [e[3] for e in asked][:4]),
                              {"fn": "decompress", "stream": desc})
            # correspondence on the recorded call (stream is periodic enough or skipped)
            spf = lambda b: specs.get(b)
            ssp = spf(s)
            if ssp is not None:
                ev_t = events_term(logx, spf); ex_t = c_res_spec(r, spf)
                if ev_t and ex_t:
                    add("CDecomp %s %s %s" % (spec_term(ssp), ev_t, ex_t), ("decompress", desc))
            else:
                skipped_big[0] += 1
            contract_case(wb, s, LIMIT + 1, ref_inflate(wb, s), spf, desc, in_coq=False)
            if wb == -15:
                huge_raw = s
        mem = {}
        for mode in ("zip", "jwe"):
            mres = measure_memory(huge_raw, mode)
            mem[mode] = mres
            bump("memory")
            if "error" in mres:
                ctx.violation({"kind": "harness-memory"}, "memory measurement subprocess failed",
                              {"no_failing_input_found": True, "broken": "harness", "output": mres["error"]})
                continue
            if mres["out"] != ["exceeded"]:
                ctx.violation({"kind": "exceeded-not-raised"}, "%s path: stream expanding to %d MiB gave %r" % (mode, zn >> 20, mres["out"]),
                              {"fn": "memory", "mode": mode, "zeros": zn})
            if mres["peak"] > (16 << 20) + 4 * mres["stream"]:
                ctx.violation({"kind": "memory"},
                              "%s path: peak traced allocation %d octets while refusing a %d-octet stream that expands to %d MiB "
                              "(bound: 16 MiB + 4x stream)" % (mode, mres["peak"], mres["stream"], zn >> 20),
                              {"fn": "memory", "mode": mode, "zeros": zn, "measured": mres})
        ctx.coverage["peak_memory"] = mem

        tick("F")
        # ---- G. through every enc and serialization (pairwise), position after authentication
        encs = list(JWERegistry.algorithms["enc"].values())
        keys = {e.name: OctKey.import_key(bytes(rng.randrange(256) for _ in range(e.cek_size // 8))) for e in encs}
        kw_key = OctKey.import_key(bytes(rng.randrange(256) for _ in range(16)))

        def b64d(x):
            return base64.urlsafe_b64decode(x + "=" * (-len(x) % 4))

        def b64e(x):
            return base64.urlsafe_b64encode(x).rstrip(b"=").decode()

        last_encrypt = {}

        def wire_oracle(logx, p, zipv, label, rep):
            encs_ = [e for e in logx if e[0] == "encrypt"]
            bump("wire_checked")
            for e in encs_:
                for kind, text in wire_verdict(e[2], p, zipv):
                    ctx.violation({"kind": kind, "fn": "encrypt"} if kind == "correspondence" else {"kind": kind},
                                  "%s: %s" % (label, text), rep)

        def enc_tail_case(logx, p, zipv, after_plain, label, step, d):
            """one recorded perform_encrypt -> CEncTail case (model of the zip step)"""
            comp = [e for e in logx if e[0] == "compress"]
            encs_ = [e for e in logx if e[0] == "encrypt"]
            spf = spf_for({"data": d})
            if len(encs_) != 1 or len(comp) > 1:
                return
            psp, asp, esp = spf(p), spf(after_plain), spf(encs_[0][2])
            zsp = spf(comp[0][3]) if comp else ("lit", b"")
            zarg_ok = (not comp) or comp[0][1] == p
            if None in (psp, asp, esp, zsp):
                skipped_big[0] += 1
                return
            zt = "None" if zipv is None else '(Some "%s"%%string)' % zipv
            add("CEncTail None %s %s %s %s %s %s" % (zt, spec_term(psp), spec_term(zsp if zarg_ok else ("lit", b"")),
                                                  c_bool(bool(comp)), spec_term(esp), spec_term(asp)),
                ("enctail", label, step, d))

        def jwe_encrypt(enc, ser, payload, stream=None, zipv="DEF", aads=None, ddesc=None):
            """-> (token, key).  stream: foreign octets to put in place of compress(payload).
            Every encrypt made with the library's own compressor goes through the wire oracle."""
            if stream is not None:
                zipm.compress = lambda p: stream
            ins.reset()
            aad = None
            try:
                prot = {"enc": enc.name}
                if zipv is not None:
                    prot["zip"] = zipv
                if ser == "compact":
                    prot["alg"] = "dir"
                    out = jwe.encrypt_compact(prot, payload, keys[enc.name]), keys[enc.name]
                elif ser == "flattened":
                    prot["alg"] = "dir"
                    aad = rng.choice(aads or [None, b"extra aad", b""])
                    obj = jwe.FlattenedJSONEncryption(prot, payload, aad=aad)
                    obj.add_recipient({}, keys[enc.name])
                    out = jwe.encrypt_json(obj, None), keys[enc.name]
                else:
                    aad = rng.choice(aads or [None, b"aad", b""])
                    obj = jwe.GeneralJSONEncryption(prot, payload, aad=aad)
                    for _ in range(rng.choice([1, 2])):
                        obj.add_recipient({"alg": "A128KW"}, kw_key)
                    out = jwe.encrypt_json(obj, None), kw_key
            finally:
                zipm.__dict__.pop("compress", None)
            logx = list(ins.log)
            last_encrypt["log"] = logx
            if stream is None:
                rep = {"fn": "wire", "enc": enc.name, "ser": ser, "aad_hex": aad.hex() if aad is not None else None}
                if len(payload) <= 2048:
                    rep["plaintext_hex"] = bytes(payload).hex()
                else:
                    rep["data"] = ddesc
                wire_oracle(logx, bytes(payload), zipv, "%s/%s encrypt" % (enc.name, ser), rep)
            return out

        last_decrypt = {}

        def last_decrypt_log():
            return last_decrypt.get("log", [])

        def jwe_decrypt(token, key, **kw):
            ins.reset()
            if isinstance(token, str):
                r = call(jwe.decrypt_compact, token, key, **kw)
            else:
                r = call(jwe.decrypt_json, token, key, **kw)
            if r[0] == "ok":
                r = ("ok", r[1].plaintext)
            last_decrypt["log"] = list(ins.log)
            return r, list(ins.log)

        def tamper(token, part):
            if isinstance(token, str):
                seg = token.split(".")
                i = {"ciphertext": 3, "tag": 4, "iv": 2}[part]
                b = bytearray(b64d(seg[i])); b[rng.randrange(len(b))] ^= 1 << rng.randrange(8)
                seg[i] = b64e(bytes(b))
                return ".".join(seg)
            t = json.loads(json.dumps(token))
            b = bytearray(b64d(t[part])); b[rng.randrange(len(b))] ^= 1 << rng.randrange(8)
            t[part] = b64e(bytes(b))
            return t

        def check_jwe(token, key, expect_plain, expect_len, label, desc, zipv="DEF", allowed=None, coq=True):
            """decrypt with instrumentation; direct oracle + CTail case"""
            kw = {"algorithms": allowed} if allowed else {}
            r, logx = jwe_decrypt(token, key, **kw)
            bump("jwe_" + label.split("/", 2)[2])
            ctx.note_case(("jwe", label, json.dumps(desc, sort_keys=True)[:300]))
            replay = {"fn": "jwe", "desc": desc, "label": label}
            # ---- position: decompress only on the output of a successful enc.decrypt
            dec = [e for e in logx if e[0] == "decrypt"]
            seen_ok = None
            for e in logx:
                if e[0] == "decrypt":
                    seen_ok = e[2][1] if e[2][0] == "ok" else None
                    dec_failed = e[2][0] == "err"
                elif e[0] in ("decompress-enter", "inflate"):
                    arg = e[1] if e[0] == "decompress-enter" else e[2]
                    if not dec or seen_ok is None or bytes(arg) != bytes(seen_ok):
                        ctx.violation({"kind": "decompress-before-auth"},
                                      "%s: zlib/decompress was applied to octets that are not the output of a successful "
                                      "enc.decrypt (%s)" % (label, "decrypt failed" if dec and seen_ok is None else "not the decrypt output"),
                                      replay)
                        break
            # ---- outcome
            if r[0] == "ok" and len(r[1]) > LIMIT and zipv == "DEF":
                ctx.violation({"kind": "over-limit-returned"}, "%s: .plaintext has %d octets" % (label, len(r[1])), replay)
            if expect_plain is not None:
                if r[0] != "ok" or bytes(r[1]) != expect_plain:
                    ctx.violation({"kind": "roundtrip"}, "%s: decrypt did not give back the %d-octet plaintext: %s" % (
                        label, len(expect_plain), "%d octets" % len(r[1]) if r[0] == "ok" else exn_class(r[1])), replay)
            elif expect_len is not None and expect_len > LIMIT:
                if r[0] == "ok":
                    ctx.violation({"kind": "truncated-return"}, "%s: stream expands to %d octets but decrypt returned %d octets" % (
                        label, expect_len, len(r[1])), replay)
                elif exn_class(r[1]) != "EJose ExceededSizeError":
                    ctx.violation({"kind": "exceeded-not-raised"}, "%s: stream expands to %d octets, %s raised" % (
                        label, expect_len, exn_class(r[1])), replay)
            # ---- correspondence with the tail model (only runs that reached enc.decrypt)
            if coq and len(dec) == 1:
                spf = spf_for({"data": desc.get("data", {"cls": "x", "n": 0})})
                dterm = c_res_spec(dec[0][2], spf)
                ev_t = events_term(logx, spf)
                ex_t = c_res_spec(r, spf)
                if dterm is None or ev_t is None or ex_t is None:
                    skipped_big[0] += 1
                else:
                    al = "None" if not allowed else "(Some %s)" % c_list('"%s"%%string' % a for a in allowed)
                    zt = "None" if zipv is None else '(Some "%s"%%string)' % zipv
                    add("CTail %s %s %s %s %s" % (al, zt, dterm, ev_t, ex_t), ("tail", label, desc))
            return r

        sers = ["compact", "flattened", "general"]
        for enc in encs:
            for ser in sers:
                # within the limit / at the limit / just over / far over; compressible and not
                plan = [("const", LIMIT), ("const", LIMIT + 1), ("periodic", LIMIT + rng.choice([2, 100, 257, 258])),
                        rng.choice([("const", rng.randrange(0, 3000)), ("lcg", rng.randrange(0, 1500)),
                                    ("periodic", rng.randrange(LIMIT - 300, LIMIT + 1))])]
                if not ctx.quick:
                    plan += [("lcg", LIMIT), ("lcg", LIMIT + 1), ("const", 300000), ("periodic", LIMIT - 1),
                             ("const", rng.randrange(0, 3000)), ("lcg", rng.randrange(0, 1500)),
                             ("periodic", rng.randrange(LIMIT - 300, LIMIT + 1))]
                for (c, n) in plan:
                    d = {"cls": c, "n": n}
                    if c == "const":
                        d["c"] = cbyte
                    if c == "periodic":
                        d["pat"] = pat.hex()
                    p = data_of(d)
                    desc = {"enc": enc.name, "ser": ser, "data": d, "how": "impl"}
                    token, key = jwe_encrypt(enc, ser, p, ddesc=d)
                    check_jwe(token, key, p if n <= LIMIT else None, n, "%s/%s/own-compressor" % (enc.name, ser), desc)
                # a foreign stream: zlib-wrapped default header, stored, other level
                for fd in ([{"how": "obj", "level": 6, "wbits": 15, "strategy": 0},
                            {"how": "stored", "sizes": [65535]},
                            {"how": "obj", "level": rng.choice([1, 9]), "wbits": -15, "strategy": rng.choice(strategies)}]):
                    n = rng.choice([LIMIT, LIMIT + 1, LIMIT + 258, 1000])
                    d = {"cls": rng.choice(["const", "periodic"]), "n": n, "c": cbyte, "pat": pat.hex()}
                    sdesc = dict(fd, data=d)
                    s, p = build_stream(sdesc, zipm)
                    desc = dict(sdesc, enc=enc.name, ser=ser)
                    token, key = jwe_encrypt(enc, ser, b"x", stream=s)
                    check_jwe(token, key, p if n <= LIMIT else None, n, "%s/%s/foreign-%s" % (enc.name, ser, fd["how"]), desc)
                # tampered: authentication fails -> nothing is decompressed
                d = {"cls": "const", "c": cbyte, "n": rng.choice([10, 5000, LIMIT + 5])}
                token, key = jwe_encrypt(enc, ser, data_of(d), ddesc=d)
                for part in ("ciphertext", "tag"):
                    desc = {"enc": enc.name, "ser": ser, "data": d, "how": "impl", "tamper": part, "seed_note": "bit flip"}
                    t2 = tamper(token, part)
                    r = check_jwe(t2, key, None, None, "%s/%s/tampered-%s" % (enc.name, ser, part), desc)
                    if r[0] == "ok":
                        ctx.violation({"kind": "tampered-accepted"}, "tampered %s accepted (%s/%s)" % (part, enc.name, ser),
                                      {"fn": "jwe", "desc": desc})
                # no zip header: plaintext passes through untouched, zlib is not used
                p = bytes(rng.randrange(256) for _ in range(40))
                token, key = jwe_encrypt(enc, ser, p, zipv=None)
                check_jwe(token, key, p, None, "%s/%s/no-zip" % (enc.name, ser), {"enc": enc.name, "ser": ser, "zip": None,
                                                                                 "data": {"cls": "lit", "hex": p.hex(), "n": 40}}, zipv=None)
            # zip=DEF not in the allowed list -> UnsupportedAlgorithmError after authentication, nothing decompressed
            token, key = jwe_encrypt(enc, "compact", b"hello hello hello")
            check_jwe(token, key, None, None, "%s/compact/zip-not-allowed" % enc.name,
                      {"enc": enc.name, "ser": "compact", "data": {"cls": "lit", "hex": b"hello hello hello".hex(), "n": 17},
                       "how": "impl", "allowed": ["dir", enc.name]}, allowed=["dir", enc.name])
            check_jwe(token, key, b"hello hello hello", None, "%s/compact/zip-allowed" % enc.name,
                      {"enc": enc.name, "ser": "compact", "data": {"cls": "lit", "hex": b"hello hello hello".hex(), "n": 17},
                       "how": "impl", "allowed": ["dir", enc.name, "DEF"]}, allowed=["dir", enc.name, "DEF"])
        tick("G")
        # ---- G2. the space of LEADING OCTETS of raw streams (directed): multi-block, record-structured
        # plaintexts; the first octet of zlib's raw output is BFINAL | BTYPE<<1 | HLIT<<3 for a dynamic block,
        # e.g. 9C = non-final dynamic block with HLIT=19 (longest matches 51..58 octets)
        lead, lead2, hist = {}, {}, {}
        target = set(impl_head) | set(ZHEAD)

        def try_desc(d):
            raw = zlib.compress(data_of(d))[2:-4]
            hist[raw[0]] = hist.get(raw[0], 0) + 1
            cap = 3 if raw[0] in target else 1
            if raw[:2] not in lead2 and len(lead.get(raw[0], [])) < cap:
                lead2[raw[:2]] = d
                lead.setdefault(raw[0], []).append(d)

        def rec_desc(pl):
            return {"cls": "records", "seed": rng.randrange(1 << 30), "alph": rng.randrange(len(ALPHS)), "pl": pl,
                    "rl": pl + rng.randrange(4, 80), "n": rng.randrange(100000, 250001),
                    "distinct": rng.choice([0, 0, 4, 16, 64])}
        for _ in range(ctx.scale(40, 300)):                 # directed at HLIT=19
            if len(lead.get(0x9C, [])) >= 3:
                break
            try_desc(dict(rec_desc(rng.randrange(46, 57)), distinct=0))
        for _ in range(ctx.scale(90, 1500)):                # sweep: prefix length 3..100, alphabets, record pools
            try_desc(rec_desc(rng.randrange(3, 101)))
        lead_stats = {"first_octets_seen": {"%02x" % k: v for k, v in sorted(hist.items())},
                      "distinct_first_octets": len(hist), "distinct_first_two_octets_kept": len(lead2),
                      "reached": {"%02x" % o: o in hist for o in sorted(target)}}
        ctx.coverage["raw_leading_octets"] = lead_stats
        for o in sorted(target):
            if o not in hist:
                ctx.notes.append("leading octet %02x of GZIP_HEAD was not reached by zlib's raw output in the bounded search%s" % (
                    o, " (expected: 78 = non-final stored block with non-zero padding bits, which zlib never emits)" if o == 0x78 else ""))
        kept = [d for o in sorted(lead) for d in lead[o]]
        for d in kept:
            bump("lead_roundtrip")
            roundtrip(d, contract_ms=(LIMIT + 1,), contract_coq=False)
        # the same plaintexts as FOREIGN raw streams (other levels give other second octets); all must be taken as raw
        hot = [d for o in sorted(target) for d in lead.get(o, [])]
        n9c = 0
        for d in hot + kept[:ctx.scale(4, 40)]:
            for lv in ((-1, 9, 4) if d in hot else (-1,)):
                desc = {"data": d, "how": "obj", "level": lv, "wbits": -15, "strategy": 0}
                s, _p = build_stream(desc, zipm)
                n9c += s[:1] == b"\x9c"
                bump("lead_foreign")
                run_decompress(s, desc, coq=True, contract_ms=(LIMIT + 1,), contract_coq=False)
        # hand-made raw streams whose first octet is 78 (non-final stored block, padding bits 01111) but not 78 9C
        for sz in [1, 5, 0x9B, 0x9D, 0x19B, 300, 0x9C9B, 65535]:
            d = {"cls": "periodic", "pat": pat.hex(), "n": sz + rng.randrange(1, 50)}
            bump("lead_foreign")
            run_decompress(*build_stream({"data": d, "how": "stored", "sizes": [sz], "pad": 15}, zipm)[:1],
                           {"data": d, "how": "stored", "sizes": [sz], "pad": 15}, coq=True, contract_ms=(LIMIT + 1,))
        lead_stats["foreign_raw_streams_beginning_9c"] = int(n9c)
        # through complete JWEs: compact + one JSON serialization, two encs
        two_encs = [e for e in encs if e.name in ("A128GCM", "A256CBC-HS512")] or encs[:2]
        for d in (hot[:3] + kept[:1]):
            p = data_of(d)
            for enc in two_encs:
                for ser in ("compact", "flattened"):
                    token, key = jwe_encrypt(enc, ser, p, ddesc=d)
                    check_jwe(token, key, p, len(p), "%s/%s/leading-octet" % (enc.name, ser),
                              {"enc": enc.name, "ser": ser, "data": d, "how": "impl"})
        tick("G2")
        # ---- G3. operation SEQUENCES on message objects with zip=DEF: the same object encrypted 2-3 times
        # (same / other recipients), every token decrypted (twice, into fresh objects); the object's own
        # plaintext / headers / aad must be what the caller put there
        import copy
        from joserfc.rfc7516.message import perform_encrypt
        from joserfc.rfc7516.compact import represent_compact
        from joserfc.rfc7516.registry import default_registry

        def snapshot(obj):
            return {"plaintext": bytes(obj.plaintext) if obj.plaintext is not None else None,
                    "protected": copy.deepcopy(obj.protected),
                    "unprotected": copy.deepcopy(getattr(obj, "unprotected", None)),
                    "aad": copy.deepcopy(getattr(obj, "aad", None)),
                    "recipient_headers": [copy.deepcopy(r.header) for r in obj.recipients]}

        def seq_step(obj, produce, key, p, d, label, step, snap):
            """one encrypt of obj (+ decrypt of the result, twice); -> nothing"""
            ins.reset()
            r = call(produce)
            logx = list(ins.log)
            bump("seq_encrypt")
            ctx.note_case(("seq", label, step, json.dumps(d, sort_keys=True)[:200]))
            rep = {"fn": "sequence", "label": label, "step": step, "data": d}
            if r[0] != "ok":
                ctx.violation({"kind": "sequence-encrypt-raises"}, "%s: encrypt #%d of the same object raised %s" % (
                    label, step, exn_class(r[1])), rep)
                return
            after = snapshot(obj)
            diff = [k for k in snap if snap[k] != after[k]]
            if diff:
                what = diff[0]
                ctx.violation({"kind": "object-mutated", "field": what},
                              "%s: encrypt #%d changed the caller's message object: %s %s" % (
                                  label, step, what,
                                  "now %d octets (was %d)" % (len(after[what] or b""), len(snap[what] or b""))
                                  if what == "plaintext" else "%r -> %r" % (snap[what], after[what])), rep)
            # wire oracle + correspondence with the model of the zip step
            wire_oracle(logx, p, snap["protected"].get("zip"), "%s encrypt #%d" % (label, step), rep)
            enc_tail_case(logx, p, snap["protected"].get("zip"), after["plaintext"] or b"", label, step, d)
            token = r[1]
            for again in (1, 2):
                tk = token if isinstance(token, str) else json.loads(json.dumps(token))
                check_jwe(tk, key, p if len(p) <= LIMIT else None, len(p), "%s/#%d/decrypt%d" % (label, step, again),
                          {"sequence": label, "step": step, "data": d, "enc": snap["protected"]["enc"], "ser": "seq"},
                          coq=(again == 1))

        seq_encs = encs if not ctx.quick else rng.sample(encs, 2)
        seq_data = [{"cls": "const", "c": cbyte, "n": 80000}, {"cls": "periodic", "pat": pat.hex(), "n": LIMIT},
                    {"cls": "lcg", "n": rng.randrange(200, 1400)},
                    {"cls": "lit", "hex": b'{"iss":"a","sub":"b","n":[1,2,3]}'.hex(), "n": 33},
                    {"cls": "lit", "hex": "", "n": 0}]
        if kept:
            seq_data.append(kept[0])
        for enc in seq_encs:
            k1, k2 = keys[enc.name], OctKey.import_key(bytes(rng.randrange(256) for _ in range(enc.cek_size // 8)))
            kw2 = OctKey.import_key(bytes(rng.randrange(256) for _ in range(32)))
            for d in (seq_data if not ctx.quick else rng.sample(seq_data[:-2], 2) + [seq_data[-2]]):
                p = data_of(d)
                # flattened JSON, direct key; third encrypt for another recipient key
                obj = jwe.FlattenedJSONEncryption({"enc": enc.name, "zip": "DEF", "alg": "dir"}, p,
                                                  aad=rng.choice([None, b"associated", b""]))
                obj.add_recipient({}, k1)
                snap = snapshot(obj)
                lab = "%s/flattened-object" % enc.name
                for step in (1, 2):
                    seq_step(obj, lambda: jwe.encrypt_json(obj, None), k1, p, d, lab, step, snap)
                obj.add_recipient({}, k2)
                seq_step(obj, lambda: jwe.encrypt_json(obj, None), k2, p, d, lab, 3, snapshot(obj) | {"plaintext": snap["plaintext"]})
                # general JSON, key wrapping, shared unprotected header; recipient set replaced for the third encrypt
                obj = jwe.GeneralJSONEncryption({"enc": enc.name, "zip": "DEF"}, p, {"cty": "x"}, aad=rng.choice([None, b"aad", b""]))
                obj.add_recipient({"alg": "A128KW"}, kw_key)
                obj.add_recipient({"alg": "A128KW", "kid": "second"}, kw_key)
                snap = snapshot(obj)
                lab = "%s/general-object" % enc.name
                seq_step(obj, lambda: jwe.encrypt_json(obj, None), kw_key, p, d, lab, 1, snap)
                seq_step(obj, lambda: jwe.encrypt_json(obj, None), kw_key, p, d, lab, 2, snap)
                obj.recipients = []
                obj.add_recipient({"alg": "A256KW"}, kw2)
                seq_step(obj, lambda: jwe.encrypt_json(obj, None), kw2, p, d, lab, 3, snapshot(obj) | {"plaintext": snap["plaintext"]})
                # compact: the object path (CompactEncryption + attach_recipient + perform_encrypt) ...
                obj = jwe.CompactEncryption({"enc": enc.name, "zip": "DEF", "alg": "dir"}, p)
                obj.attach_recipient(k1)
                snap = snapshot(obj)
                lab = "%s/compact-object" % enc.name

                def produce_compact():
                    perform_encrypt(obj, default_registry)
                    return represent_compact(obj).decode("ascii")
                for step in (1, 2):
                    seq_step(obj, produce_compact, k1, p, d, lab, step, snap)
                # ... and the function path with one protected dict used twice
                prot = {"alg": "dir", "enc": enc.name, "zip": "DEF"}
                prot0 = copy.deepcopy(prot)
                for step in (1, 2):
                    ins.reset()
                    r = call(jwe.encrypt_compact, prot, p, k1)
                    bump("seq_encrypt")
                    if r[0] != "ok" or prot != prot0:
                        ctx.violation({"kind": "object-mutated", "field": "protected"},
                                      "%s: encrypt_compact #%d raised or changed the caller's protected header: %r" % (enc.name, step, prot),
                                      {"fn": "sequence", "label": "%s/compact-function" % enc.name, "step": step, "data": d})
                        break
                    check_jwe(r[1], k1, p if len(p) <= LIMIT else None, len(p), "%s/compact-function/#%d" % (enc.name, step),
                              {"sequence": "compact-function", "step": step, "data": d, "enc": enc.name, "ser": "seq"}, coq=False)
        tick("G3")
        # ---- G4. degenerate and falsy-but-valid values with zip=DEF: plaintexts of 0, 1, 2 octets, aad b"" / None,
        # every enc and every serialization: the wire carries the raw DEFLATE stream of the plaintext (03 00 for b"")
        for enc in encs:
            for ser in sers:
                for p in [b"", bytes([rng.randrange(256)]), bytes(rng.randrange(256) for _ in range(2))] + \
                        ([b"\x00", b"0", b" "] if not ctx.quick else []):
                    d = {"cls": "lit", "hex": p.hex(), "n": len(p)}
                    token, key = jwe_encrypt(enc, ser, p, aads=[b"", None] if ser != "compact" else None)
                    enc_tail_case(last_encrypt["log"], p, "DEF", p, "%s/%s/degenerate" % (enc.name, ser), 1, d)
                    check_jwe(token, key, p, len(p), "%s/%s/degenerate-%d" % (enc.name, ser, len(p)),
                              {"enc": enc.name, "ser": ser, "data": d, "how": "impl"})
        # decompress itself on degenerate inputs: recorded (b"" is not a stream: nothing is demanded for it)
        degenerate = {}
        for name, s in [("empty", b""), ("0300", b"\x03\x00"), ("010000ffff", b"\x01\x00\x00\xff\xff")]:
            ins.reset()
            r = call(zipm.decompress, s)
            degenerate[name] = ("ok %s" % r[1].hex()) if r[0] == "ok" else exn_class(r[1])
            if name != "empty" and r != ("ok", b""):
                ctx.violation({"kind": "within-limit-rejected"},
                              "decompress(%s) (a complete raw stream of the empty plaintext) gave %s" % (name, degenerate[name]),
                              {"fn": "decompress", "stream_hex": s.hex(), "stream": None})
        ctx.coverage["degenerate_inputs"] = degenerate
        tick("G4")
        # ---- G5. ENTRY POINTS: every public route to the zip step (fail closed on unknown exports of joserfc.jwe)
        from joserfc import jwt
        from joserfc.rfc7516.message import perform_decrypt
        from joserfc.rfc7516.compact import extract_compact
        from joserfc.rfc7516.models import JWEZipModel
        ENTRY = {"JWERegistry": "registry get_zip: G (allowed lists), G5 (custom zip model)",
                 "JWEEncModel": "type of the enc models (instrumented: every enc)",
                 "JWEZipModel": "base class: G5 custom registered zip model",
                 "Recipient": "data holder (G3 object sequences)",
                 "CompactEncryption": "G3 object path (attach_recipient + perform_encrypt), G5 perform_decrypt",
                 "GeneralJSONEncryption": "G, G3, G4", "FlattenedJSONEncryption": "G, G3, G4",
                 "encrypt_compact": "G, G2, G4", "decrypt_compact": "G, G2, G4",
                 "encrypt_json": "G, G3, G4", "decrypt_json": "G, G3, G4", "default_registry": "default in every call"}
        exported = list(getattr(jwe, "__all__", []))
        unknown = [n for n in exported if n not in ENTRY]
        ctx.coverage["entry_points"] = {"jwe.__all__": exported, "covered": ENTRY, "unknown_exports": unknown,
                                        "others": ["jwt.encode/jwt.decode with a JWERegistry", "rfc7516.message.perform_encrypt/"
                                                   "perform_decrypt on objects", "DeflateZipModel.compress/decompress directly"]}
        if unknown or not exported:
            ctx.violation({"kind": "entry-point-unknown"},
                          "joserfc.jwe exports %r: not in the table of entry points of this check (can it reach the zip step?)" % (unknown,),
                          {"fn": "entry", "unknown": unknown, "no_failing_input_found": True, "broken": "harness entry-point table"})
        jreg = JWERegistry()
        for enc in two_encs:
            k1 = keys[enc.name]
            for n in (0, 40, LIMIT - 100, LIMIT + 1):
                claims = {"iss": "joserfc", "pad": "h" * n} if n else {}
                hdr = {"alg": "dir", "enc": enc.name, "zip": "DEF"}
                from joserfc.rfc7519.claims import convert_claims
                pbytes = convert_claims(claims, None)
                ins.reset()
                r = call(jwt.encode, hdr, claims, k1, registry=jreg)
                bump("entry_jwt")
                ctx.note_case(("jwt", enc.name, n))
                rep = {"fn": "jwt", "enc": enc.name, "pad": n}
                if r[0] != "ok":
                    ctx.violation({"kind": "jwt-encode-raises"}, "jwt.encode over JWE with zip raised %s (claims of %d octets)" % (
                        exn_class(r[1]), len(pbytes)), rep)
                    continue
                wire_oracle(list(ins.log), pbytes, "DEF", "jwt.encode/%s" % enc.name, rep)
                ins.reset()
                rd = call(jwt.decode, r[1], k1, registry=jreg)
                logx = list(ins.log)
                infl = [e for e in logx if e[0] == "inflate"]
                if len(pbytes) <= LIMIT:
                    if rd[0] != "ok" or rd[1].claims != claims:
                        ctx.violation({"kind": "roundtrip"}, "jwt.decode(jwt.encode(claims)) over JWE with zip: %s (claims of %d octets)" % (
                            exn_class(rd[1]) if rd[0] == "err" else "other claims", len(pbytes)), rep)
                elif rd[0] == "ok" or exn_class(rd[1]) != "EJose ExceededSizeError":
                    ctx.violation({"kind": "exceeded-not-raised" if rd[0] == "err" else "truncated-return"},
                                  "jwt.decode of a JWE whose claims expand to %d octets gave %s" % (
                                      len(pbytes), exn_class(rd[1]) if rd[0] == "err" else "claims"), rep)
                if len(infl) != 1 or infl[0][3] != LIMIT + 1:
                    ctx.violation({"kind": "memory"}, "jwt.decode: zlib calls %r" % ([e[3] for e in infl],), rep)
                # the same token through the object-level API
                ins.reset()
                obj = extract_compact(r[1].encode("ascii"))
                obj.recipient.recipient_key = k1
                ro = call(perform_decrypt, obj, default_registry)
                bump("entry_perform_decrypt")
                if len(pbytes) <= LIMIT and (ro[0] != "ok" or obj.plaintext != pbytes):
                    ctx.violation({"kind": "roundtrip"}, "perform_decrypt on an extracted object: %s" % (
                        exn_class(ro[1]) if ro[0] == "err" else "%d octets" % len(obj.plaintext or b"")), rep)
                if len(pbytes) > LIMIT and (ro[0] == "ok" or exn_class(ro[1]) != "EJose ExceededSizeError"):
                    ctx.violation({"kind": "exceeded-not-raised" if ro[0] == "err" else "truncated-return"},
                                  "perform_decrypt: expansion of %d octets gave %s" % (len(pbytes), "data" if ro[0] == "ok" else exn_class(ro[1])), rep)
        # a zip model registered by the caller: the limit of the built-in DEF is not a property of other models (recorded);
        # it is still only applied to the output of a successful enc.decrypt
        observed = {}

        class C17CustomZip(JWEZipModel):
            name = "C17X"
            description = "custom zip model of the C17 check"
            recommended = False
            seen = []

            def compress(self, s):
                return b"\x01" + bytes(s)[::-1]

            def decompress(self, s):
                C17CustomZip.seen.append(bytes(s))
                return bytes(s)[1:][::-1]
        JWERegistry.register(C17CustomZip())
        try:
            enc = two_encs[0]
            bigp = bytes([cbyte]) * 300000
            al = ["dir", enc.name, "C17X"]
            ins.reset()
            tok = jwe.encrypt_compact({"alg": "dir", "enc": enc.name, "zip": "C17X"}, bigp, keys[enc.name], algorithms=al)
            ins.reset()
            rc = call(jwe.decrypt_compact, tok, keys[enc.name], algorithms=al)
            decs = [e for e in ins.log if e[0] == "decrypt"]
            observed["custom_zip_model"] = ("300000-octet plaintext returned: the 256000 limit belongs to the built-in DEF model only"
                                            if rc[0] == "ok" and rc[1].plaintext == bigp else "decrypt gave %s" % (
                                                exn_class(rc[1]) if rc[0] == "err" else "other data"))
            if not (len(decs) == 1 and decs[0][2][0] == "ok" and C17CustomZip.seen == [bytes(decs[0][2][1])]):
                ctx.violation({"kind": "decompress-before-auth"}, "custom zip model: decompress was not applied exactly to the output "
                              "of the successful enc.decrypt", {"fn": "custom-zip"})
            C17CustomZip.seen.clear()
            rt = call(jwe.decrypt_compact, tamper(tok, "tag"), keys[enc.name], algorithms=al)
            if rt[0] == "ok" or C17CustomZip.seen:
                ctx.violation({"kind": "decompress-before-auth"}, "custom zip model: tampered token decompressed/accepted", {"fn": "custom-zip"})
            rn = call(jwe.decrypt_compact, tok, keys[enc.name])
            observed["custom_zip_not_allowed"] = "ok" if rn[0] == "ok" else exn_class(rn[1])
            bump("entry_custom_zip")
        finally:
            JWERegistry.algorithms["zip"].pop("C17X", None)
        # zip outside the protected header (shared unprotected / per-recipient header): recorded
        for where in ("unprotected", "recipient"):
            enc = two_encs[0]
            p = b"hello hello hello " * 30
            obj = jwe.FlattenedJSONEncryption({"enc": enc.name, "alg": "dir"}, p, {"zip": "DEF"} if where == "unprotected" else None)
            obj.add_recipient({"zip": "DEF"} if where == "recipient" else {}, keys[enc.name])
            ins.reset()
            re_ = call(jwe.encrypt_json, obj, None)
            le = list(ins.log)
            ins.reset()
            rd = call(jwe.decrypt_json, re_[1], keys[enc.name]) if re_[0] == "ok" else re_
            ld = list(ins.log)
            bump("entry_zip_unprotected")
            observed["zip_in_%s_header" % where] = (
                ("encrypt %s; " % ("compresses" if any(e[0] == "compress" for e in le) else "does not compress") if re_[0] == "ok"
                 else "encrypt raises %s; " % exn_class(re_[1])) +
                ("decrypt %s" % ("inflates" if any(e[0] == "inflate" for e in ld) else "does not inflate, returns the octets as they are")
                 if rd[0] == "ok" else "decrypt raises %s" % exn_class(rd[1])))
            if rd[0] == "ok" and rd[1].plaintext != p:
                ctx.violation({"kind": "roundtrip"}, "zip=DEF in the %s header: encrypt+decrypt does not give back the plaintext" % where,
                              {"fn": "zip-unprotected", "where": where})
        # zip header values of the wrong type / unknown names: refused, nothing compressed, nothing inflated
        def craft_compact(enc, prot, msg):
            ph = b64e(json.dumps(prot, separators=(",", ":")).encode())
            iv = bytes(rng.randrange(256) for _ in range(enc.iv_size // 8))
            ct, tag = type(enc).encrypt(enc, msg, keys[enc.name].raw_value, iv, ph.encode("ascii"))
            return ".".join([ph, "", b64e(iv), b64e(ct), b64e(tag)])
        good_raw = zlib.compress(b"wrong zip value " * 10)[2:-4]
        for enc in (encs if not ctx.quick else two_encs):
            for zv in ["def", "DEF ", " DEF", "", "GZ", "DEFLATE", None, 0, True, ["DEF"], {"a": 1}]:
                prot = {"alg": "dir", "enc": enc.name, "zip": zv}
                ins.reset()
                re_ = call(jwe.encrypt_compact, prot, b"wrong zip value " * 10, keys[enc.name])
                le = list(ins.log)
                bump("wrong_zip_value")
                ctx.note_case(("wrongzip", enc.name, repr(zv)))
                rep = {"fn": "wrong-zip", "enc": enc.name, "zip": repr(zv)}
                if re_[0] == "ok" or not lib.is_allowed_exn(re_[1]) or any(e[0] in ("encrypt", "compress") for e in le):
                    ctx.violation({"kind": "wrong-zip-accepted"}, "encrypt_compact with zip=%r: %s" % (
                        zv, "accepted" if re_[0] == "ok" else exn_class(re_[1])), rep)
                tok = craft_compact(enc, prot, good_raw)
                if isinstance(zv, str):
                    rd = check_jwe(tok, keys[enc.name], None, None, "%s/compact/wrong-zip" % enc.name,
                                   {"enc": enc.name, "ser": "compact", "zipvalue": zv, "data": {"cls": "lit", "hex": "", "n": 0}}, zipv=zv)
                    ld = last_decrypt_log()
                else:
                    ins.reset()
                    rd = call(jwe.decrypt_compact, tok, keys[enc.name])
                    ld = list(ins.log)
                if rd[0] == "ok" or not lib.is_allowed_exn(rd[1]) or any(e[0] in ("inflate", "decompress-enter") for e in ld):
                    ctx.violation({"kind": "wrong-zip-accepted"}, "decrypt_compact of an authentic token with zip=%r: %s" % (
                        zv, "accepted" if rd[0] == "ok" else exn_class(rd[1])), rep)
        # twins: does ENCRYPTION refuse what decryption will refuse?  (recorded; the text speaks of decryption only)
        enc = two_encs[0]
        ins.reset()
        ro = call(jwe.encrypt_compact, {"alg": "dir", "enc": enc.name, "zip": "DEF"}, bytes([cbyte]) * (LIMIT + 1), keys[enc.name])
        observed["encrypt_over_limit"] = ("accepted at encryption (compress has no limit); the token is refused at decryption"
                                          if ro[0] == "ok" else "refused at encryption: %s" % exn_class(ro[1]))
        ctx.coverage["recorded_behaviour"] = observed
        tick("G5")
        # ---- G6. HISTORIES / STATE: many messages through the same model object — bombs, corrupt, wrapped (78 9C / 78 01 /
        # 78 DA), raw, gzip-like — then valid ones again; each verdict equals its first-in-process verdict; compress after
        # decompress; the same from several threads at once
        pool = list(hist_pool)
        rng.shuffle(pool)
        sample = pool[:ctx.scale(300, 4000)]
        ref_text = bytes(rng.choice(b"abcdefgh ") for _ in range(500))
        ref_comp = zipm.compress(ref_text)
        prev = []
        for i, (s, desc, vk) in enumerate(sample):
            if i % 25 == 0:
                call(zipm.decompress, huge_raw)
                call(zipm.decompress, b"\x1f\x8b\x08\x00" + s)
            if i % 10 == 3 and zipm.compress(ref_text) != ref_comp:
                ctx.violation({"kind": "history-dependent", "fn": "compress"}, "compress gives another result after %d decompress calls" % i,
                              {"fn": "history", "prev": prev[-5:], "stream": None})
            ins.reset()
            r = call(zipm.decompress, s)
            bump("history")
            if verdict_key(r) != vk:
                ctx.violation({"kind": "history-dependent"},
                              "decompress gives %r for a stream that gave %r when it was first seen in this process [%s]" % (
                                  verdict_key(r), vk, json.dumps(desc)[:160]),
                              {"fn": "history", "prev": prev[-5:], "stream": desc})
            prev.append(desc)
        # Coq: short histories with repeated streams against decompress_seq
        small_pool = [x for x in pool if len(x[0]) <= 160][:400]
        for _ in range(ctx.scale(6, 60)):
            if len(small_pool) < 4:
                break
            items = [rng.choice(small_pool) for _ in range(6)]
            items = items + [items[0], items[2]]
            ins.reset()
            outs = [call(zipm.decompress, s) for (s, _d, _v) in items]
            logx = list(ins.log)
            spf = lambda b: specs.get(b)
            st = [spf(s) for (s, _d, _v) in items]
            ev_t = events_term(logx, spf)
            ex = [c_res_spec(o, spf) for o in outs]
            if None in st or ev_t is None or None in ex:
                skipped_big[0] += 1
                continue
            add("CHist %s %s %s" % (c_list(spec_term(x) for x in st), ev_t, c_list(ex)), ("history", [d for (_s, d, _v) in items]))
        # threads
        import threading
        work = sample[:ctx.scale(120, 600)] + [x for x in pool if len(x[0]) > 20000][:10]
        terr = []

        def worker(k):
            for j in range(len(work)):
                s, desc, vk = work[(j * 7 + k * 13) % len(work)]
                r = call(zipm.decompress, s)
                if verdict_key(r) != vk:
                    terr.append((desc, vk, verdict_key(r)))
                if j % 9 == k and zipm.compress(ref_text) != ref_comp:
                    terr.append(("compress", None, None))
        if work:
            ths = [threading.Thread(target=worker, args=(k,)) for k in range(4)]
            for th in ths:
                th.start()
            for th in ths:
                th.join()
            bump("history_threads")
            ins.reset()
            if terr:
                ctx.violation({"kind": "history-dependent", "fn": "threads"},
                              "decompress/compress called from 4 threads at once: %d verdict(s) differ from the single-threaded ones, e.g. %r" % (
                                  len(terr), terr[0][1:]), {"fn": "history", "threads": 4, "stream": terr[0][0], "prev": []})
        tick("G6")
        # the 64 MiB / 512 MiB expansion through a JWE (in-process; memory measured above)
        token, key = jwe_encrypt(encs[0], "compact", b"x", stream=huge_raw)
        check_jwe(token, key, None, zn, "%s/compact/huge" % encs[0].name,
                  {"enc": encs[0].name, "ser": "compact", "data": {"cls": "zeros", "n": zn}, "how": "zeros", "wbits": -15}, coq=False)

    tick("G")
    # ---- H. cross-check of the two evaluators of octet-string descriptions
    big = list(specs.big.values())
    rng.shuffle(big)
    pick = [x for x in big if x[0][0] == "app"][:ctx.scale(12, 200)] + [x for x in big if x[0][0] != "app"][:ctx.scale(12, 200)]
    for sp, b in pick:
        add("CSpecSum %s %s %s" % (spec_term(sp), c_N(len(b)), c_N(zlib.adler32(b))), ("specsum", len(b)))

    dist["coq_skipped_no_compact_form"] = skipped_big[0]
    ctx.coverage["input_distribution"] = dist
    ctx.coverage["rule"] = ("zlib contract instances validated on the real zlib; every recorded decompress/compress/decrypt run "
                            "replayed through the Gallina model; property oracle on every implementation output")
    ctx.coverage["recorded_candidates"] = {"counts": findings, "samples": notes_samples}
    ctx.notes.append("CANDIDATE (not raised): an authenticated but incomplete DEFLATE stream is returned as the prefix zlib "
                     "could produce, without error (eof is never consulted) - theorem c17_incomplete_stream_returned; "
                     "observed %d times" % findings["incomplete_prefix_returned"])
    ctx.notes.append("GAP (not raised): a foreign raw stream beginning with 78 9C is inflated as zlib-wrapped - theorem "
                     "c17_raw_prefix_gap; zlib's own raw output never begins so (validated); observed %d" % findings["raw_prefix_gap"])
    ctx.sample({"fn": "decompress(compress(b'h'*256000))", "impl": "ok 256000"})
    ctx.sample({"fn": "decompress(compress(b'h'*256001))", "impl": "ExceededSizeError"})
    ctx.sample({"peak_memory": mem})
    if cases:
        ctx.sample({"coq_case": cases[0][:200]})

    if os.environ.get("C17_DUMP"):            # debugging aid: write the generated cases
        with open(os.environ["C17_DUMP"], "w") as f:
            json.dump({"cases": cases, "meta": [repr(m)[:300] for m in meta]}, f)
    # ---- correspondence: model (vm_compute) vs recorded implementation behaviour
    soft, hard = resource.getrlimit(resource.RLIMIT_STACK)
    try:
        resource.setrlimit(resource.RLIMIT_STACK, (hard, hard))     # long lists in coqc
    except (ValueError, OSError):
        pass
    SHARD, MAXCH = 40, 60000
    imports = ["From Model Require Import Base TableTypes C17Zip C17Cases."]
    ev = lib.CoqEval(imports, "c17case", "c17_check", None, shard=SHARD, max_chars=MAXCH)
    res = ev.run(cases, jobs=12, timeout=ctx.scale(900, 2400))
    if res["errors"]:
        # a shard killed on a loaded machine (memory): evaluate those shards again, fewer at a time
        bounds = dict(shard_bounds(cases, SHARD, MAXCH))
        redo = [i for si, _ in res["errors"] for i in range(si, bounds.get(si, si))]
        ctx.notes.append("re-ran %d cases of %d shard(s) that coqc did not finish: %s" % (
            len(redo), len(res["errors"]), res["errors"][0][1][-200:]))
        res2 = ev.run([cases[i] for i in redo], jobs=4)
        res["failing"] += [redo[j] for j in res2["failing"]]
        res["evaluated"] += res2["evaluated"]
        res["errors"] = res2["errors"]
    model_says = {}
    if res["failing"]:
        evs = lib.CoqEval(imports, "c17case", "(fun _ : c17case => false)", "c17_show", shard=1, max_chars=MAXCH)
        r3 = evs.run([cases[i] for i in res["failing"][:8]], jobs=8)
        model_says = {res["failing"][k]: v[:300] for k, v in r3["shows"].items()}
    try:
        resource.setrlimit(resource.RLIMIT_STACK, (soft, hard))
    except (ValueError, OSError):
        pass
    tick("coq-eval")
    ctx.coverage["timing_s"] = timing
    ctx.coverage["traces_validated_against_impl"] = res["evaluated"]
    ctx.coverage["disagreements_checked"] = len(res["failing"])
    direct = len(ctx.violations)
    for i in res["failing"][:20]:
        m = meta[i]
        kind = "zlib-contract" if m[0] == "contract" else ("harness-spec" if m[0] == "specsum" else "correspondence")
        ctx.violation({"kind": kind, "fn": m[0]},
                      ("the real zlib violates the Coq statement of the contract on %r" if m[0] == "contract" else
                       "model and implementation disagree on %r") % (m[1:],),
                      {"case": cases[i][:3000], "stream": m[1] if len(m) > 1 else None, "fn": "case",
                       "model_output(len,adler32),trace_len": model_says.get(i),
                       "no_failing_input_found": direct == 0,
                       "broken": "correspondence model/C17Cases.v:c17_check vs joserfc.rfc7518.jwe_zips / rfc7516.message"})
    for si, err in res["errors"][:5]:
        ctx.violation({"kind": "correspondence-error"}, "coqc failed on a generated case file",
                      {"output": err, "no_failing_input_found": True, "broken": "case evaluation"})
    if not ok:
        ctx.violation({"kind": "proof-broken"}, "props/C17.v or its closure no longer compiles",
                      {"log": log[-3000:], "no_failing_input_found": direct == 0 and not res["failing"],
                       "broken": "theorems of props/C17.v"})
    ctx.assumptions += [
        "zlib (inflate/deflate) is not modelled: it is a Section variable with the contract zlib_ok (Z1 max_length honoured; "
        "Z2 limited output = prefix of the full output, nothing left over when the full output is shorter than max_length; "
        "Z3-Z6 shape of zlib.compress); every clause is validated on the real zlib %s in this run, not proved" % zlib.ZLIB_RUNTIME_VERSION,
        "peak memory is measured (tracemalloc in a subprocess), not proved; the proved memory statement is at the contract level "
        "(one zlib call, max_length = MAX_SIZE+1)",
        "only the tail of _perform_decrypt (enc.decrypt .. zip) is modelled; enc.decrypt is an oracle whose recorded answer is replayed",
    ]
    if not ctx.quick:
        ctx.coqchk()


def wire_verdict(m, p, zipv):
    """The octets handed to enc.encrypt for plaintext p.  With zip=DEF they must be one complete raw RFC 1951
    stream of p (strict: end of stream reached, nothing after it) -> list of (kind, text)."""
    bad = []
    if zipv == "DEF":
        d = zlib.decompressobj(-15)
        rr = call(d.decompress, bytes(m))
        if not (rr[0] == "ok" and rr[1] == p and d.eof and not d.unused_data):
            why = ("raw inflate raises " + exn_class(rr[1])) if rr[0] == "err" else (
                "the stream is incomplete (end of stream not reached)" if not d.eof else
                "trailing octets after the stream" if d.unused_data else "it inflates to other data")
            bad.append(("wire-not-raw-deflate",
                        "the octets encrypted for a zip=DEF message with a %d-octet plaintext are %s (%d octets): "
                        "not a complete raw DEFLATE stream of the plaintext: %s" % (len(p), short(bytes(m), 12) or "empty", len(m), why)))
        elif bytes(m) != zlib.compress(p)[2:-4]:
            bad.append(("correspondence", "the octets encrypted differ from zlib.compress(p)[2:-4] (|p|=%d)" % len(p)))
    elif zipv is None and bytes(m) != p:
        bad.append(("wire-plaintext", "without zip the octets encrypted are not the plaintext (|p|=%d)" % len(p)))
    return bad


def replay_wire(enc_name, ser, p, aad):
    from joserfc import jwe
    from joserfc.jwk import OctKey
    from joserfc.rfc7516.registry import JWERegistry
    enc = JWERegistry.algorithms["enc"][enc_name]
    key = OctKey.import_key(bytes(range(enc.cek_size // 8)))
    kw = OctKey.import_key(bytes(range(16)))
    with Instr() as ins:
        ins.reset()
        prot = {"enc": enc.name, "zip": "DEF"}
        if ser == "compact":
            jwe.encrypt_compact(dict(prot, alg="dir"), p, key)
        elif ser == "flattened":
            obj = jwe.FlattenedJSONEncryption(dict(prot, alg="dir"), p, aad=aad)
            obj.add_recipient({}, key)
            jwe.encrypt_json(obj, None)
        else:
            obj = jwe.GeneralJSONEncryption(prot, p, aad=aad)
            obj.add_recipient({"alg": "A128KW"}, kw)
            jwe.encrypt_json(obj, None)
        logx = list(ins.log)
    bad = []
    for e in logx:
        if e[0] == "encrypt":
            print("enc.encrypt received", short(e[2], 16) or "<empty>", "(%d octets)" % len(e[2]))
            bad += wire_verdict(e[2], p, "DEF")
    if not any(e[0] == "encrypt" for e in logx):
        bad.append(("no-encrypt", "enc.encrypt was not called"))
    print("verdict:", bad)
    return 1 if bad else 0


def replay_sequence(enc_name, d, steps):
    """encrypt one FlattenedJSONEncryption object `steps` times, decrypt the last result"""
    from joserfc import jwe
    from joserfc.jwk import OctKey
    from joserfc.rfc7516.registry import JWERegistry
    enc = JWERegistry.algorithms["enc"][enc_name]
    key = OctKey.import_key(bytes(range(enc.cek_size // 8)))
    p = data_of(d)
    obj = jwe.FlattenedJSONEncryption({"enc": enc.name, "zip": "DEF", "alg": "dir"}, p)
    obj.add_recipient({}, key)
    bad = []
    for k in range(max(2, int(steps))):
        with Instr() as ins:
            ins.reset()
            token = jwe.encrypt_json(obj, None)
            for e in list(ins.log):
                if e[0] == "encrypt":
                    bad += ["encrypt #%d: %s" % (k + 1, text) for _kind, text in wire_verdict(e[2], p, "DEF")]
        if obj.plaintext != p:
            bad.append("after encrypt #%d the object's plaintext has %d octets (was %d)" % (k + 1, len(obj.plaintext), len(p)))
        out = call(jwe.decrypt_json, json.loads(json.dumps(token)), key)
        res = ("ok %d octets" % len(out[1].plaintext)) if out[0] == "ok" else exn_class(out[1])
        if len(p) <= LIMIT and (out[0] != "ok" or out[1].plaintext != p):
            bad.append("decrypt of token #%d gives %s, not the %d-octet plaintext" % (k + 1, res, len(p)))
        print("encrypt #%d -> decrypt: %s" % (k + 1, res))
    print("verdict:", bad)
    return 1 if bad else 0


def replay(path):
    from joserfc.rfc7518.jwe_zips import DeflateZipModel
    r = json.load(open(path))["replay"]
    print("replay:", json.dumps(r)[:600])
    m = DeflateZipModel()
    fn = r.get("fn")
    if fn == "decompress":
        s = bytes.fromhex(r["stream_hex"]) if r.get("stream_hex") else build_stream(r["stream"], m)[0]
        out = call(m.decompress, s)
        ref_raw = ref_inflate(-15, s)
        ref_w = ref_inflate(15, s) if s.startswith(ZHEAD) else None
        bad = direct_verdict(s, ref_raw, ref_w, out)
        print("decompress ->", ("ok %d octets" % len(out[1])) if out[0] == "ok" else repr(out[1]), "| verdict:", bad)
        return 1 if bad else 0
    if fn == "roundtrip":
        p = data_of(r["data"])
        out = call(lambda: m.decompress(m.compress(p)))
        print("roundtrip |p|=%d ->" % len(p), ("ok %d octets" % len(out[1])) if out[0] == "ok" else repr(out[1]))
        if len(p) <= LIMIT:
            return 0 if out == ("ok", p) else 1
        return 0 if out[0] == "err" and exn_class(out[1]) == "EJose ExceededSizeError" else 1
    if fn == "compress":
        p = data_of(r["data"])
        c = m.compress(p)
        d = zlib.decompressobj(-15)
        o = call(d.decompress, c)
        good = o == ("ok", p) and d.eof and not d.unused_data and not c.startswith(ZHEAD)
        print("compress |p|=%d -> head %s raw-stream=%r" % (len(p), c[:8].hex(), good))
        return 0 if good else 1
    if fn == "wire":
        return replay_wire(r["enc"], r["ser"], bytes.fromhex(r["plaintext_hex"]) if r.get("plaintext_hex") is not None
                           else data_of(r["data"]), bytes.fromhex(r["aad_hex"]) if r.get("aad_hex") is not None else None)
    if fn == "sequence":
        enc_name = r["label"].split("/")[0]
        return replay_sequence(enc_name, r["data"], r.get("step", 2))
    if fn == "jwe":
        # re-build the token with fresh keys (same enc / serialization / stream / tampering) and decrypt it
        import random
        from joserfc import jwe
        from joserfc.jwk import OctKey
        from joserfc.rfc7516.registry import JWERegistry
        desc = r["desc"]
        if desc.get("sequence"):
            return replay_sequence(desc["enc"], desc["data"], desc.get("step", 2))
        enc = JWERegistry.algorithms["enc"][desc["enc"]]
        rnd = random.Random(1)
        key = OctKey.import_key(bytes(rnd.randrange(256) for _ in range(enc.cek_size // 8)))
        kw = OctKey.import_key(bytes(rnd.randrange(256) for _ in range(16)))
        zipv = desc.get("zip", "DEF")
        with Instr() as ins:
            zm = ins.zipmodel
            if desc.get("how", "impl") == "impl":
                p = data_of(desc["data"]); stream = None
            else:
                stream, p = build_stream(desc, zm)
                zm.compress = lambda _p: stream
            prot = {"enc": enc.name}
            if zipv is not None:
                prot["zip"] = zipv
            payload = p if stream is None else b"x"
            if desc.get("ser") == "general":
                obj = jwe.GeneralJSONEncryption(prot, payload)
                obj.add_recipient({"alg": "A128KW"}, kw)
                token, key = jwe.encrypt_json(obj, None), kw
            elif desc.get("ser") == "flattened":
                obj = jwe.FlattenedJSONEncryption(dict(prot, alg="dir"), payload)
                obj.add_recipient({}, key)
                token = jwe.encrypt_json(obj, None)
            else:
                token = jwe.encrypt_compact(dict(prot, alg="dir"), payload, key)
            zm.__dict__.pop("compress", None)
            part = desc.get("tamper")
            if part:
                if isinstance(token, str):
                    seg = token.split(".")
                    i = {"ciphertext": 3, "tag": 4, "iv": 2}[part]
                    b = bytearray(base64.urlsafe_b64decode(seg[i] + "=" * (-len(seg[i]) % 4))); b[0] ^= 1
                    seg[i] = base64.urlsafe_b64encode(bytes(b)).rstrip(b"=").decode()
                    token = ".".join(seg)
                else:
                    b = bytearray(base64.urlsafe_b64decode(token[part] + "=" * (-len(token[part]) % 4))); b[0] ^= 1
                    token[part] = base64.urlsafe_b64encode(bytes(b)).rstrip(b"=").decode()
            ins.reset()
            kwargs = {"algorithms": desc["allowed"]} if desc.get("allowed") else {}
            out = call(jwe.decrypt_compact if isinstance(token, str) else jwe.decrypt_json, token, key, **kwargs)
            logx = list(ins.log)
        res = ("ok %d octets" % len(out[1].plaintext)) if out[0] == "ok" else exn_class(out[1])
        bad = []
        dec_ok = None
        for e in logx:
            if e[0] == "decrypt":
                dec_ok = e[2][1] if e[2][0] == "ok" else None
            elif e[0] in ("decompress-enter", "inflate"):
                arg = e[1] if e[0] == "decompress-enter" else e[2]
                if dec_ok is None or bytes(arg) != bytes(dec_ok):
                    bad.append("decompress applied to octets that are not the output of a successful enc.decrypt")
                    break
        n = desc["data"]["n"]
        if part:
            if out[0] == "ok":
                bad.append("tampered token accepted")
        elif zipv == "DEF" and not desc.get("allowed"):
            if n <= LIMIT and (out[0] != "ok" or (p is not None and out[1].plaintext != p)):
                bad.append("plaintext of %d octets not returned" % n)
            if n > LIMIT and res != "EJose ExceededSizeError":
                bad.append("expansion of %d octets not refused with ExceededSizeError" % n)
        print("decrypt ->", res, "| events:", [e[0] for e in logx], "| verdict:", bad)
        return 1 if bad else 0
    print("see the replay file for the failing case (re-run ./check C17 to reproduce)")
    return 1
