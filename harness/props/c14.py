"""C14 — key sets resolve exactly the key named by kid.

Correspondence: real KeySets / jws / jwe / jwt operations are run with
joserfc.jws.guess_key, joserfc.jwe.guess_key, joserfc.jwe._guess_sender_key and
joserfc._keys.random wrapped (logging only); every logged call and every entry
point call becomes one term of model/C14Cases.v:c14case and is compared with
the Gallina model by vm_compute.  Direct oracle: independent of the model, the
produced tokens are inspected (kid member, which key really verifies/decrypts
them) and forged tokens are consumed against key sets."""
import base64, copy, json, os
import lib
from lib import c_str, c_N, c_bool, c_list, c_opt, c_pv, c_exn, exn_class

# ----------------------------------------------------------------------------
# small helpers
# ----------------------------------------------------------------------------

def b64u(b):
    return base64.urlsafe_b64encode(b).rstrip(b"=").decode("ascii")


def b64u_dec(s):
    if isinstance(s, str):
        s = s.encode("ascii")
    return base64.urlsafe_b64decode(s + b"=" * (-len(s) % 4))


def call(f, *a, **k):
    try:
        return ("ok", f(*a, **k))
    except BaseException as e:  # noqa
        if isinstance(e, (KeyboardInterrupt, SystemExit)):
            raise
        return ("err", e)


def c_nat(n):
    return "%d%%nat" % n


# thumbprints are long and occur in every key term: they are defined once in the
# preamble of every generated case file (th<i>) and referred to by name
THUMB_NAMES = {}
_lib_c_str, _lib_c_pv = c_str, c_pv


def c_str(s):        # noqa: F811
    n = THUMB_NAMES.get(s)
    return n if n is not None else _lib_c_str(s)


def c_pv(v):         # noqa: F811
    if isinstance(v, str):
        return "(PStr %s)" % c_str(v)
    if isinstance(v, (list, tuple)):
        return "(PList %s)" % c_list([c_pv(x) for x in v])
    if isinstance(v, dict):
        return "(PDict %s)" % c_list(["(%s, %s)" % (c_str(k), c_pv(x)) for k, x in v.items()])
    return _lib_c_pv(v)


def thumb_preamble(h):
    return "".join("Definition th%d : list N := %s.\n" % (i, _lib_c_str(p["thumb"])) for i, p in enumerate(h.pool))


def c_hdr(d):
    return c_list(["(%s, %s)" % (c_str(k), c_pv(v)) for k, v in d.items()])


def c_ohdr(d):
    return "None" if d is None else "(Some %s)" % c_hdr(d)


def c_guest(s):
    kind, prot, unprot, hdr = s
    return "(mkGuest %s %s %s %s)" % (kind, c_ohdr(prot), c_ohdr(unprot), c_ohdr(hdr))


def c_res(r, okf):
    if r[0] == "ok":
        return "(Ok %s)" % okf(r[1])
    return "(Err %s)" % c_exn(r[1])


# key types the algorithms require, transcribed from the property text
def expected_types(alg):
    if alg.startswith("HS") or alg == "dir" or alg.startswith("PBES2") or (alg.startswith("A") and alg.endswith("KW")):
        return ["oct"]
    if alg.startswith("RS") or alg.startswith("PS"):
        return ["RSA"]
    if alg.startswith("ES"):
        return ["EC"]
    if alg == "EdDSA":
        return ["OKP"]
    if alg.startswith("ECDH"):
        return ["EC", "OKP"]
    return None


# RFC 7638, computed here (not by joserfc): the REQUIRED members of the key type,
# in lexicographic order, no whitespace, SHA-256, base64url
REQUIRED = {"oct": ["k", "kty"], "RSA": ["e", "kty", "n"], "EC": ["crv", "kty", "x", "y"], "OKP": ["crv", "kty", "x"]}


def my_thumb(d):
    import hashlib
    req = REQUIRED[d["kty"]]
    txt = "{" + ",".join("%s:%s" % (json.dumps(k), json.dumps(d[k])) for k in sorted(req)) + "}"
    return b64u(hashlib.sha256(txt.encode("utf-8")).digest())


PUBLIC = {"EC": ["crv", "x", "y", "kty"], "OKP": ["crv", "x", "kty"], "RSA": ["n", "e", "kty"]}
ORDERS = ["native", "kty_first", "kty_last", "rev", "sorted", "kid_first"]


def reorder(d, order):
    """the same JWK with another member order (the order of a JSON object carries no meaning)"""
    if order in (None, "native"):
        return dict(d)
    ks = list(d)
    if order == "kty_first":
        ks = ["kty"] + [k for k in ks if k != "kty"]
    elif order == "kty_last":
        ks = [k for k in ks if k != "kty"] + ["kty"]
    elif order == "rev":
        ks = ks[::-1]
    elif order == "sorted":
        ks = sorted(ks)
    elif order == "kid_first":
        ks = [k for k in ("kid", "y", "x", "crv", "kty") if k in d] + [k for k in ks if k not in ("kid", "y", "x", "crv", "kty")]
    return {k: d[k] for k in ks}


def gen_orders(rng, n):
    return [rng.choice(ORDERS) for _ in range(n)]


NONSTR_KIDS = [0, 1, True, False, None, [], ["a"], {}, {"a": 1}, 1.5, 0.0]
STR_KIDS = ["k1", "k2", "a", "key-3", "é中", "\U0001F511x", " ", "0", "None", "kid"]


class H:
    """state of one run: key pool, logs, deterministic choice"""

    def __init__(self, rng, plan=None):
        self.rng = rng
        self.pool = []          # [{jwk, kty, sub, thumb}]
        self.tid = {}           # thumbprint -> pool index
        self.log = []
        self.choices = []
        self.logging = True
        self.plan = list(plan) if plan else []
        self.rsa_objs = {}
        self.drafts = False
        self.live = []          # [(the parameters dict handed to the library, copy of what it was)]

    # ---- identity of key material
    def mid(self, key):
        t = my_thumb(key.dict_value)
        if t not in self.tid:
            raise RuntimeError("key material not from the pool")
        return self.tid[t]

    def add_pool(self, key, sub):
        d = key.as_dict(private=True)
        d.pop("kid", None)
        t = my_thumb(d)
        self.tid[t] = len(self.pool)
        THUMB_NAMES[t] = "th%d" % len(self.pool)
        e = {"jwk": d, "kty": d["kty"], "sub": sub, "thumb": t}
        if d["kty"] != "oct":
            e["pem"] = key.as_pem(private=True).decode("ascii")
        self.pool.append(e)

    def make_pool(self):
        from joserfc.jwk import OctKey, ECKey, OKPKey, RSAKey
        for size in (128, 128, 128, 128, 256, 256, 256, 192, 384, 512, 40, 1024):
            raw = bytes(self.rng.randrange(256) for _ in range(size // 8))
            self.add_pool(OctKey.import_key({"kty": "oct", "k": b64u(raw)}), size)
        for crv in ("P-256",) * 4 + ("P-384",) * 3:
            self.add_pool(ECKey.generate_key(crv), crv)
        for crv in ("Ed25519",) * 3 + ("X25519",) * 3:
            self.add_pool(OKPKey.generate_key(crv), crv)
        self.add_pool(RSAKey.generate_key(2048), 2048)      # ONE RSA key per run

    def load_pool(self, entries):
        from joserfc.jwk import JWKRegistry
        for e in entries:
            self.tid[my_thumb(e["jwk"])] = len(self.pool)
            self.pool.append(dict(e))

    def private_twin(self, key):
        """the private key object of the same material and kid (for trial verification / decryption and forging)"""
        if key.is_private:
            return key
        return self.build_key((self.mid(key), key.dict_value.get("kid")))

    def build_key(self, spec, order=None, pub=False):
        """spec = (pool index, kid or None); order: member order of the JWK dict the key is imported from.
        RSA objects are cached (import costs 50 ms)."""
        from joserfc.jwk import JWKRegistry
        i, kid = spec
        p = self.pool[i]
        d = dict(p["jwk"])
        if pub and p["kty"] != "oct":
            d = {k: d[k] for k in d if k in PUBLIC[p["kty"]]}      # the public-only key (role: recipient / verifier)
        if kid is not None:
            d["kid"] = kid
        if p["kty"] == "RSA":
            order = order if order in ("kty_first", "sorted") else "native"
            ck = (i, kid, order, bool(pub))
            if ck not in self.rsa_objs:
                self.rsa_objs[ck] = JWKRegistry.import_key(reorder(d, order))
            return self.rsa_objs[ck]
        return JWKRegistry.import_key(reorder(d, order))

    def build_keys(self, spec):
        if spec.get("shared") is not None:
            # keys imported individually from PEM / raw octets with ONE shared `parameters` dict (as generate_key_set
            # and application code do): the JWK dict of such a key is built lazily.  Do not touch the keys here.
            from joserfc.jwk import JWKRegistry, OctKey
            shared = copy.deepcopy(spec["shared"])
            self.live.append((shared, copy.deepcopy(spec["shared"])))
            out = []
            for sp in spec["keys"]:
                p = self.pool[sp[0]]
                if p["kty"] == "oct":
                    out.append(OctKey.import_key(b64u_dec(p["jwk"]["k"]), shared))
                else:
                    out.append(JWKRegistry.import_key(p["pem"].encode("ascii"), p["kty"], shared))
            return out
        orders = spec.get("orders") or [None] * len(spec["keys"])
        pubs = spec.get("pub") or [False] * len(spec["keys"])
        return [self.build_key(tuple(s), o, pb) for s, o, pb in zip(spec["keys"], orders, pubs)]

    def c_key(self, key):
        kid = key.dict_value.get("kid")
        return "(mkKey %s \"%s\" %s %s)" % (c_opt(kid, c_str), key.key_type, c_N(self.mid(key)), c_str(key.thumbprint()))

    def c_keys(self, keys):
        return c_list([self.c_key(k) for k in keys])

    def tsel(self):
        return "TDrafts" if self.drafts else "TStd"

    # ---- deterministic random.choice
    def choice(self, seq):
        seq = list(seq)
        if not seq:
            raise IndexError("Cannot choose from an empty sequence")
        if self.plan:
            idx = self.plan.pop(0) % len(seq)
        else:
            idx = self.rng.randrange(len(seq))
        self.choices.append({"cands": [self.mid(k) for k in seq], "idx": idx})
        return seq[idx]


class FakeRandom:
    def __init__(self, h):
        self.h = h

    def choice(self, seq):
        return self.h.choice(seq)


def snap(obj):
    from joserfc.rfc7515.model import CompactSignature, HeaderMember
    from joserfc.rfc7516.models import Recipient, CompactEncryption
    cp = copy.deepcopy
    if isinstance(obj, CompactSignature):
        return ("GJwsCompact", cp(obj.protected), None, None)
    if isinstance(obj, HeaderMember):
        return ("GJwsMember", cp(obj.protected), None, cp(obj.header))
    if isinstance(obj, Recipient):
        parent = obj._Recipient__parent
        if isinstance(parent, CompactEncryption):
            return ("GJweCompact", cp(parent.protected), None, None)
        return ("GJweJson", cp(parent.protected), cp(parent.unprotected), cp(obj.header))
    raise RuntimeError("unknown guest %r" % (obj,))


class Patches:
    """wrap the selection functions (logging only) and random.choice"""

    def __init__(self, h):
        self.h = h

    def __enter__(self):
        from joserfc import jws, jwe, _keys
        from joserfc.rfc7797 import compact as c77, json as j77
        h = self.h
        self.saved = (jws.guess_key, jwe.guess_key, jwe._guess_sender_key, _keys.random, c77.guess_key, j77.guess_key)

        def wrap_guess(orig):
            def w(key, obj, use_random=False):
                if not h.logging:
                    return orig(key, obj, use_random)
                rec = {"fn": "guess", "pre": snap(obj), "ur": bool(use_random)}
                n = len(h.choices)
                try:
                    k = orig(key, obj, use_random)
                except BaseException as e:  # noqa
                    rec["res"] = ("err", exn_class(e)); rec["choices"] = h.choices[n:]
                    h.log.append(rec)
                    raise
                rec["res"] = ("ok", (h.mid(k), k.dict_value.get("kid"), snap(obj))); rec["choices"] = h.choices[n:]
                rec["keyobj"] = k
                h.log.append(rec)
                return k
            return w

        def wrap_sender(orig):
            def w(recipient, key, use_random=False):
                if not h.logging:
                    return orig(recipient, key, use_random)
                rec = {"fn": "sender", "pre": snap(recipient), "ur": bool(use_random), "skarg": key}
                n = len(h.choices)
                try:
                    k = orig(recipient, key, use_random)
                except BaseException as e:  # noqa
                    rec["res"] = ("err", exn_class(e)); rec["choices"] = h.choices[n:]
                    h.log.append(rec)
                    raise
                rec["res"] = ("ok", (h.mid(k), snap(recipient))); rec["choices"] = h.choices[n:]
                h.log.append(rec)
                return k
            return w

        jws.guess_key = wrap_guess(self.saved[0])
        jwe.guess_key = wrap_guess(self.saved[1])
        jwe._guess_sender_key = wrap_sender(self.saved[2])
        _keys.random = FakeRandom(h)
        c77.guess_key = wrap_guess(self.saved[4])
        j77.guess_key = wrap_guess(self.saved[5])
        return self

    def __exit__(self, *a):
        from joserfc import jws, jwe, _keys
        from joserfc.rfc7797 import compact as c77, json as j77
        jws.guess_key, jwe.guess_key, jwe._guess_sender_key, _keys.random, c77.guess_key, j77.guess_key = self.saved


# ----------------------------------------------------------------------------
# running one operation from a JSON-able spec
# ----------------------------------------------------------------------------
class Other:            # not a key, not a key set, not callable
    pass


def build_source(h, spec):
    """-> (argument for the key parameter, description for the Coq term)"""
    from joserfc.jwk import KeySet
    keys = h.build_keys(spec)
    raw_before = None
    ks = KeySet(keys) if spec["src"] != "emptyset" else KeySet([])
    src = spec["src"]
    if src == "set":
        base, desc = ks, ("set", keys)
    elif src == "emptyset":
        base, desc = ks, ("set", [])
    elif src == "key":
        base, desc = keys[spec["src_i"]], ("key", keys[spec["src_i"]])
    else:
        base, desc = Other(), ("other", None)
    mode = spec.get("mode", "direct")
    if mode == "direct":
        arg = base
        mdesc = ("direct", None)
    elif mode == "call":
        arg = lambda obj: base  # noqa
        mdesc = ("call", None)
    else:   # bykid: the set when the header names a kid, else one fixed key
        alt = keys[spec["alt_i"]]
        arg = lambda obj: base if "kid" in obj.headers() else alt  # noqa
        mdesc = ("bykid", alt)
    return arg, desc, mdesc, keys, ks, raw_before


def c_src(h, desc):
    if desc[0] == "set":
        return "(KSSet %s)" % h.c_keys(desc[1])
    if desc[0] == "key":
        return "(KSKey %s)" % h.c_key(desc[1])
    return "KSOther"


def c_mode(h, mdesc):
    if mdesc[0] == "direct":
        return "MDirect"
    if mdesc[0] == "call":
        return "MCall"
    return "(MCallByKid (KSKey %s))" % h.c_key(mdesc[1])


def build_sender(h, sspec):
    from joserfc.jwk import KeySet
    if sspec is None:
        return None, None, []
    keys = h.build_keys(sspec)
    if sspec["src"] == "set":
        return KeySet(keys), ("set", keys), keys
    return keys[sspec["src_i"]], ("key", keys[sspec["src_i"]]), keys


def c_sender(h, sdesc):
    if sdesc is None:
        return "None"
    if sdesc[0] == "set":
        return "(Some (SKSet %s))" % h.c_keys(sdesc[1])
    return "(Some (SKKey %s))" % h.c_key(sdesc[1])


def algs_of(spec):
    a = list(spec.get("algs") or [])
    return a


def jwe_registry(spec):
    """JWERegistry in the configuration of the scenario (spec["reg"]: verify_all_recipients, strict_check_header)"""
    from joserfc import jwe
    cfg = spec.get("reg") or {}
    return jwe.JWERegistry(algorithms=algs_of(spec), verify_all_recipients=cfg.get("va", True),
                           strict_check_header=cfg.get("strict", True))


def jws_kwargs(spec, r7797=False):
    """algorithms=[...] or an explicit JWSRegistry (strict_check_header False)"""
    cfg = spec.get("reg") or {}
    if cfg.get("strict", True) and not cfg.get("explicit"):
        return {"algorithms": algs_of(spec)}
    if r7797:
        from joserfc.rfc7797 import JWSRegistry as R
    else:
        from joserfc.jws import JWSRegistry as R
    return {"registry": R(algorithms=algs_of(spec), strict_check_header=cfg.get("strict", True))}


def gen_reg(rng, fam):
    r = rng.random()
    if fam == "jwe":
        return {"va": rng.random() < 0.5, "strict": rng.random() < 0.7}
    return {"strict": r < 0.6, "explicit": rng.random() < 0.5}


def produce(h, spec):
    """run a producing entry point; -> record"""
    from joserfc import jws, jwe, jwt
    arg, desc, mdesc, keys, ks, raw_before = build_source(h, spec)
    sarg, sdesc, skeys = build_sender(h, spec.get("sender"))
    h.log, h.choices = [], []
    fam, ser = spec["fam"], spec["ser"]
    inputs = copy.deepcopy(spec["hdrs"])
    hd = copy.deepcopy(spec["hdrs"])
    payload = bytes.fromhex(spec["payload_hex"]) if "payload_hex" in spec else b"c14 payload"
    if fam == "jws":
        from joserfc import rfc7797
        if ser == "c7797":
            pre = [("GJwsCompact", inputs[0]["protected"], None, None)]
            out = call(rfc7797.serialize_compact, hd[0]["protected"], payload, arg, algorithms=algs_of(spec))
        elif ser == "j7797":
            pre = [("GJwsMember", inputs[0].get("protected"), None, inputs[0].get("header"))]
            out = call(rfc7797.serialize_json, hd[0], payload.decode("utf-8"), arg, algorithms=algs_of(spec))
        elif ser == "compact":
            pre = [("GJwsCompact", inputs[0]["protected"], None, None)]
            out = call(jws.serialize_compact, hd[0]["protected"], payload, arg, algorithms=algs_of(spec))
        elif ser == "jwt":
            pre = [("GJwsCompact", {"typ": "JWT", **inputs[0]["protected"]}, None, None)]
            out = call(jwt.encode, hd[0]["protected"], {"sub": "c14"}, arg, algorithms=algs_of(spec))
        elif ser == "flat":
            pre = [("GJwsMember", inputs[0].get("protected"), None, inputs[0].get("header"))]
            out = call(jws.serialize_json, hd[0], payload, arg, algorithms=algs_of(spec))
        else:
            pre = [("GJwsMember", m.get("protected"), None, m.get("header")) for m in inputs]
            out = call(jws.serialize_json, hd, payload, arg, algorithms=algs_of(spec))
    else:
        reg = jwe_registry(spec)
        if ser == "compact":
            pre = [("GJweCompact", inputs["protected"], None, None)]
            out = call(jwe.encrypt_compact, hd["protected"], payload, arg, registry=reg, sender_key=sarg)
        elif ser == "jwt":
            pre = [("GJweCompact", {"typ": "JWT", **inputs["protected"]}, None, None)]
            out = call(jwt.encode, hd["protected"], {"sub": "c14"}, arg, registry=reg)
        else:
            cls = jwe.FlattenedJSONEncryption if ser == "flat" else jwe.GeneralJSONEncryption
            obj = cls(hd["protected"], payload, hd.get("unprotected"))
            for rh in hd["recipients"]:
                obj.add_recipient(rh)
            pre = [("GJweJson", inputs["protected"], inputs.get("unprotected"), rh) for rh in inputs["recipients"]]
            out = call(jwe.encrypt_json, obj, arg, registry=reg, sender_key=sarg)
    return {"spec": spec, "desc": desc, "mdesc": mdesc, "keys": keys, "ks": ks, "sdesc": sdesc, "skeys": skeys,
            "pre": pre, "out": out, "log": h.log, "choices": h.choices, "raw_before": raw_before, "ur": True,
            "caller_hdrs": hd}


def token_guests(fam, ser, token):
    """header objects of a serialized token, derived here (not by joserfc)"""
    if fam == "jws":
        if ser in ("compact", "jwt", "c7797"):
            t = token.decode() if isinstance(token, bytes) else token
            return [("GJwsCompact", json.loads(b64u_dec(t.split(".")[0])), None, None)]
        sigs = token["signatures"] if "signatures" in token else [token]
        out = []
        for s in sigs:
            prot = json.loads(b64u_dec(s["protected"])) if "protected" in s else None
            out.append(("GJwsMember", prot, None, copy.deepcopy(s["header"]) if "header" in s else None))
        return out
    if ser in ("compact", "jwt"):
        t = token.decode() if isinstance(token, bytes) else token
        return [("GJweCompact", json.loads(b64u_dec(t.split(".")[0])), None, None)]
    prot = json.loads(b64u_dec(token["protected"]))
    unprot = copy.deepcopy(token.get("unprotected"))
    recs = token["recipients"] if "recipients" in token else [token]
    return [("GJweJson", prot, unprot, copy.deepcopy(r.get("header"))) for r in recs]


def merged(g):
    kind, prot, unprot, hdr = g
    rv = {}
    for d in (prot, unprot, hdr):
        if d:
            rv.update(d)
    return rv


def consume(h, spec):
    """run a consuming entry point on spec["token"]"""
    from joserfc import jws, jwe, jwt
    arg, desc, mdesc, keys, ks, raw_before = build_source(h, spec)
    sarg, sdesc, skeys = build_sender(h, spec.get("sender"))
    h.log, h.choices = [], []
    fam, ser, token = spec["fam"], spec["ser"], copy.deepcopy(spec["token"])
    pre = token_guests(fam, ser, spec["token"])
    if fam == "jws":
        from joserfc import rfc7797
        if ser == "c7797":
            pl = bytes.fromhex(spec["payload_hex"]) if spec.get("give_payload") else None
            out = call(rfc7797.deserialize_compact, token, arg, payload=pl, **jws_kwargs(spec, True))
        elif ser == "j7797":
            out = call(rfc7797.deserialize_json, token, arg, **jws_kwargs(spec, True))
        elif ser == "compact":
            out = call(jws.deserialize_compact, token, arg, **jws_kwargs(spec))
        elif ser == "jwt":
            out = call(jwt.decode, token, arg, **jws_kwargs(spec))
        else:
            out = call(jws.deserialize_json, token, arg, **jws_kwargs(spec))
    else:
        reg = jwe_registry(spec)
        if ser == "compact":
            out = call(jwe.decrypt_compact, token, arg, registry=reg, sender_key=sarg)
        elif ser == "jwt":
            out = call(jwt.decode, token, arg, registry=reg)
        else:
            out = call(jwe.decrypt_json, token, arg, registry=reg, sender_key=sarg)
    return {"spec": spec, "desc": desc, "mdesc": mdesc, "keys": keys, "ks": ks, "sdesc": sdesc, "skeys": skeys,
            "pre": pre, "out": out, "log": h.log, "choices": h.choices, "raw_before": raw_before, "ur": False}


# ---- which single key verifies / decrypts a (one member / one recipient) token
def split_token(fam, ser, token):
    """-> list of single-member tokens (ser', token')"""
    if ser in ("compact", "jwt"):
        return [("compact", token)]
    if ser in ("c7797", "j7797"):
        return [(ser, token)]
    if fam == "jws":
        if "signatures" in token:
            return [("flat", {"payload": token["payload"], **copy.deepcopy(s)}) for s in token["signatures"]]
        return [("flat", token)]
    if "recipients" in token:
        out = []
        for r in token["recipients"]:
            t = {k: copy.deepcopy(v) for k, v in token.items() if k != "recipients"}
            t.update(copy.deepcopy(r))
            out.append(("flat", t))
        return out
    return [("flat", token)]


def accepts(h, fam, ser, token, key, algs, sender=None, payload=None):
    from joserfc import jws, jwe, rfc7797
    old = h.logging
    h.logging = False
    try:
        token = copy.deepcopy(token)
        if ser == "c7797":
            r = call(rfc7797.deserialize_compact, token, key, payload=payload, algorithms=algs)
        elif ser == "j7797":
            r = call(rfc7797.deserialize_json, token, key, algorithms=algs)
        elif fam == "jws":
            r = call(jws.deserialize_compact, token, key, algorithms=algs) if ser == "compact" else \
                call(jws.deserialize_json, token, key, algorithms=algs)
        else:
            reg = jwe.JWERegistry(algorithms=algs)
            r = call(jwe.decrypt_compact, token, key, registry=reg, sender_key=sender) if ser == "compact" else \
                call(jwe.decrypt_json, token, key, registry=reg, sender_key=sender)
        return r[0] == "ok"
    finally:
        h.logging = old


def identify(h, fam, ser, token, keys, algs, sender=None):
    """pool ids of the keys in `keys` that, alone, verify / decrypt the token"""
    return [h.mid(k) for k in keys if accepts(h, fam, ser, token, k, algs, sender)]


# ----------------------------------------------------------------------------
# Coq terms for a record
# ----------------------------------------------------------------------------
def group_logs(rec):
    """-> per member/recipient: dict(guess=log or None, sender=log or None, last=log)"""
    groups, cur = [], None
    fam, ser, ur = rec["spec"]["fam"], rec["spec"]["ser"], rec["ur"]
    sender_first = fam == "jwe" and ur and ser in ("flat", "general") and rec["sdesc"] is not None
    for e in rec["log"]:
        starts = (e["fn"] == "sender") if sender_first else (e["fn"] == "guess")
        if starts or cur is None:
            cur = {"guess": None, "sender": None, "last": None}
            groups.append(cur)
        cur[e["fn"]] = e
        cur["last"] = e
    return groups


def idx_of(e):
    if e is None or not e["choices"]:
        return 0
    return e["choices"][0]["idx"]


def guess_cases(h, rec):
    out = []
    for e in rec["log"]:
        if e["fn"] == "guess":
            exp = c_res(e["res"], lambda v: "(%s, %s, %s)" % (c_N(v[0]), c_opt(v[1], c_str), c_guest(v[2])))
            out.append("CGuess %s %s %s %s %s %s %s" % (h.tsel(), c_mode(h, rec["mdesc"]), c_src(h, rec["desc"]),
                                                      c_guest(e["pre"]), c_bool(e["ur"]), c_nat(idx_of(e)), exp))
        else:
            exp = c_res(e["res"], lambda v: "(%s, %s)" % (c_N(v[0]), c_guest(v[1])))
            sk = rec["sdesc"]
            skt = "(SKSet %s)" % h.c_keys(sk[1]) if sk[0] == "set" else "(SKKey %s)" % h.c_key(sk[1])
            out.append("CSender %s %s %s %s %s %s" % (h.tsel(), skt, c_guest(e["pre"]), c_bool(e["ur"]), c_nat(idx_of(e)), exp))
    return out


def entry_case(h, rec, pids):
    fam = rec["spec"]["fam"]
    groups = group_logs(rec)
    n = len(rec["pre"])
    if rec["out"][0] != "ok":
        # members / recipients after the one at which the call failed were never looked at
        # (consuming side: the member after the last one looked up may be the one whose header was refused)
        n = max(1, min(n, len(groups) + (0 if rec["ur"] else 1)))
    consistent = len(groups) >= n and all(g["guess"] is not None and g["guess"]["res"][0] == "ok" and g["last"]["res"][0] == "ok"
                                          for g in groups[:n])
    if rec["out"][0] == "ok" and not consistent:
        # the call succeeded although a logged selection failed / was skipped: never matches the model
        impl = "(Err EOracleMiss)"
    elif rec["out"][0] == "ok":
        items = []
        emitted = token_guests(fam, rec["spec"]["ser"], rec["out"][1]) if (fam == "jws" and rec["ur"]) else None
        for i in range(n):
            g = groups[i]
            kid_id = g["guess"]["res"][1][0]
            last_guest = g["last"]["res"][1][-1]
            if emitted is not None:
                # producing side: the header object as parsed (here) from the EMITTED token
                last_guest = emitted[i]
            if fam == "jws":
                items.append("(%s, %s)" % (c_N(kid_id), c_guest(last_guest)))
            else:
                sid = g["sender"]["res"][1][0] if g["sender"] else None
                items.append("(%s, %s, %s)" % (c_N(kid_id), c_opt(sid, c_N), c_guest(last_guest)))
        impl = "(Ok %s)" % c_list(items)
    else:
        impl = "(Err %s)" % c_exn(exn_class(rec["out"][1]))
    if fam == "jws":
        ms = c_list(["(%s, %s, %s)" % (c_guest(rec["pre"][i]), c_nat(idx_of(groups[i]["guess"]) if i < len(groups) else 0),
                                       c_N(pids[i])) for i in range(n)])
        kc = not (rec["ur"] and rec["spec"]["ser"] == "j7797" and merged(rec["pre"][0]).get("b64") is False)
        return "CJws %s %s %s %s %s %s %s" % (h.tsel(), c_bool(rec["ur"]), c_bool(kc), c_mode(h, rec["mdesc"]),
                                              c_src(h, rec["desc"]), ms, impl)
    rs = c_list(["(%s, %s, %s, %s)" % (c_guest(rec["pre"][i]),
                                       c_nat(idx_of(groups[i]["guess"]) if i < len(groups) else 0),
                                       c_nat(idx_of(groups[i]["sender"]) if i < len(groups) else 0),
                                       c_N(pids[i])) for i in range(n)])
    va = (rec["spec"].get("reg") or {}).get("va", True)
    return "CJwe %s %s %s %s %s %s %s %s" % (h.tsel(), c_bool(rec["ur"]), c_bool(va), c_mode(h, rec["mdesc"]), c_src(h, rec["desc"]),
                                          c_sender(h, rec["sdesc"]), rs, impl)


# ----------------------------------------------------------------------------
# direct oracle (no model involved)
# ----------------------------------------------------------------------------
def jsonable_spec(h, spec):
    s = {k: v for k, v in spec.items()}
    s["pool_used"] = sorted({i for i, _ in [tuple(x) for x in spec["keys"]]} |
                            {i for i, _ in [tuple(x) for x in (spec.get("sender") or {}).get("keys", [])]})
    return s


def replay_dict(h, kind, spec, extra=None):
    spec = jsonable_spec(h, spec)
    d = {"kind": kind, "spec": spec, "pool": {str(i): h.pool[i] for i in spec["pool_used"]}, "drafts": h.drafts}
    if extra:
        d.update(extra)
    return d


def check_produced(h, rec, report):
    """direct checks on a produced token; -> per member id of the key really used (or None)"""
    spec = rec["spec"]
    fam, ser = spec["fam"], spec["ser"]
    token = rec["out"][1]
    algs = algs_of(spec)
    guests_out = token_guests(fam, ser, token)
    parts = split_token(fam, ser, token)
    used = []
    set_keys = rec["keys"] if rec["desc"][0] == "set" else ([rec["desc"][1]] if rec["desc"][0] == "key" else [])
    if rec["mdesc"][0] == "bykid":
        set_keys = list(set_keys) + [k for k in [rec["mdesc"][1]] if all(k is not x for x in set_keys)]
    sender_single = None
    for i, (pser, ptok) in enumerate(parts):
        gin, gout = rec["pre"][i], guests_out[i]
        hin, hout = merged(gin), merged(gout)
        # sender for trial decryption: the sender key named by skid (tried over all sender keys)
        senders = rec["skeys"] if rec["sdesc"] is not None else [None]
        ids = []
        for k in set_keys:
            # trial with the private key of the same material (the set may hold public-only keys: JWE encryption)
            if any(accepts(h, fam, pser, ptok, h.private_twin(k), algs, s, payload=_payload_of(spec)) for s in senders):
                ids.append(h.mid(k))
        if len(set(ids)) != 1:
            report({"kind": "produced-token-key-not-identifiable", "fam": fam, "ser": ser},
                   "token produced with a key set is accepted by %d of its keys taken alone (expected exactly 1)" % len(set(ids)),
                   spec, {"member": i, "accepting": ids})
            used.append(None)
            continue
        u = ids[0]
        used.append(u)
        ukey = [k for k in set_keys if h.mid(k) == u][0]
        if rec["desc"][0] != "set" or rec["mdesc"][0] == "bykid":
            continue
        kid_in = hin.get("kid")
        alg = hin.get("alg")
        if kid_in:      # a kid was given: exactly the named key, header unchanged
            named = [k for k in rec["keys"] if k.kid == kid_in]
            if not named or h.mid(named[0]) != u:
                report({"kind": "produce-named-key-not-used", "fam": fam, "ser": ser},
                       "header named kid %r but the token was made with the key whose kid is %r" % (kid_in, ukey.kid),
                       spec, {"member": i})
            if hout.get("kid") != kid_in:
                report({"kind": "produce-kid-rewritten", "fam": fam, "ser": ser},
                       "header named kid %r but the produced header carries %r" % (kid_in, hout.get("kid")), spec, {"member": i})
        else:           # no kid: a key of the required type, its kid recorded at the right position
            et = expected_types(alg) if isinstance(alg, str) else None
            if et is not None and ukey.key_type not in et:
                report({"kind": "produce-picked-wrong-key-type", "fam": fam, "ser": ser, "alg": alg},
                       "alg %s: picked a %s key" % (alg, ukey.key_type), spec, {"member": i})
            pos = gout[1] if ser in ("compact", "jwt", "c7797") else gout[3]
            if not isinstance(pos, dict) or pos.get("kid") != ukey.kid:
                report({"kind": "produce-kid-not-recorded", "fam": fam, "ser": ser},
                       "no kid in the header: token made with key kid=%r but the %s header of the token says %r" % (
                           ukey.kid, "protected (signed)" if ser in ("compact", "jwt", "c7797") else "unprotected/per-recipient",
                           pos.get("kid") if isinstance(pos, dict) else pos), spec, {"member": i})
            if hout.get("kid") != ukey.kid:
                report({"kind": "produce-kid-not-effective", "fam": fam, "ser": ser},
                       "effective kid of the produced header is %r, key used has kid %r" % (hout.get("kid"), ukey.kid),
                       spec, {"member": i})
    return used


def _payload_of(spec):
    return bytes.fromhex(spec["payload_hex"]) if "payload_hex" in spec else None


def expected_consume(h, keys, guests, pids):
    """what the property demands of a consuming call against the set `keys`:
    -> 'ok' | 'kid-error' | 'fail' | None (not determined by C14)"""
    verdicts = []
    for g, pid in zip(guests, pids):
        hd = merged(g)
        if "kid" not in hd:
            if len(keys) == 1:
                verdicts.append("ok" if h.mid(keys[0]) == pid else "fail")
            else:
                verdicts.append("kid-error")
            continue
        kid = hd["kid"]
        if not isinstance(kid, str):
            verdicts.append("notok")          # header validation (C15) or lookup: anything but success
            continue
        named = [k for k in keys if k.kid == kid]
        if not named:
            verdicts.append("kid-error")
        else:
            verdicts.append("ok" if h.mid(named[0]) == pid else "fail")
    return verdicts


# ----------------------------------------------------------------------------
# generators
# ----------------------------------------------------------------------------
JWS_ALGS = {"oct": ["HS256", "HS384", "HS512"], "RSA": ["RS256", "PS256"], "EC": ["ES256", "ES384"], "OKP": ["EdDSA"]}


def gen_kid(rng, thumb):
    r = rng.random()
    if r < 0.5:
        return None
    if r < 0.62:
        return thumb                 # explicit thumbprint kid
    if r < 0.68:
        return ""
    return rng.choice(STR_KIDS) + rng.choice(["", "", "-%d" % rng.randrange(100)])


def gen_set(h, need_types, n=None, subs=None, dup_ok=True, must=None, exclude=()):
    """key specs for a set; need_types: key types of which at least one key should be present (mostly)"""
    rng = h.rng
    n = n or rng.choice([1, 1, 2, 2, 3, 3, 4, 5, 6, 7, 8])
    idxs = list(range(len(h.pool)))
    rng.shuffle(idxs)

    def ok(i):
        p = h.pool[i]
        return subs is None or p["kty"] not in subs or p["sub"] in subs[p["kty"]]
    idxs = [i for i in idxs if ok(i) and i not in exclude]
    chosen = list(must or [])
    n = max(n, len(chosen))
    if not chosen and need_types and rng.random() < 0.93:
        cands = [i for i in idxs if h.pool[i]["kty"] in need_types]
        if cands:
            chosen.append(cands[0])
    # bias towards several keys of the needed type so that the choice matters
    for i in idxs:
        if len(chosen) >= n:
            break
        if i in chosen:
            continue
        if need_types and h.pool[i]["kty"] not in need_types and rng.random() < 0.45:
            continue
        chosen.append(i)
    rng.shuffle(chosen)
    specs, seen = [], set()
    no_kid = getattr(h, "no_explicit_kid", False)
    for i in chosen:
        kid = None if no_kid else gen_kid(rng, h.pool[i]["thumb"])
        eff = kid if kid is not None else h.pool[i]["thumb"]
        if eff in seen and not (dup_ok and rng.random() < 0.5):
            kid = "%s~%d" % (eff[:6], i)
            eff = kid
        seen.add(eff)
        specs.append([i, kid])
    if dup_ok and not no_kid and len(specs) >= 2 and rng.random() < 0.06:
        a, b = rng.sample(range(len(specs)), 2)
        kid = specs[a][1] if specs[a][1] is not None else h.pool[specs[a][0]]["thumb"]
        specs[b][1] = kid
    return specs


def eff_kid(h, s):
    return s[1] if s[1] is not None else h.pool[s[0]]["thumb"]


def gen_hdr_kid(h, specs, types):
    """a kid value for a header: (present?, value)"""
    rng = h.rng
    r = rng.random()
    if r < 0.34:
        return False, None
    if r < 0.62:
        cands = [s for s in specs if h.pool[s[0]]["kty"] in types] or specs
        return True, eff_kid(h, rng.choice(cands))
    if r < 0.70:
        return True, eff_kid(h, rng.choice(specs))
    if r < 0.82:
        return True, rng.choice(["nope", "unknown-kid", "K1", "é", eff_kid(h, specs[0]) + "x", eff_kid(h, specs[0])[:-1] or "z"])
    if r < 0.88:
        return True, ""
    return True, copy.deepcopy(rng.choice(NONSTR_KIDS))


def gen_mode(h, spec, types):
    rng = h.rng
    r = rng.random()
    if r < 0.55:
        spec["src"], spec["mode"] = "set", "direct"
    elif r < 0.78:
        spec["src"], spec["mode"] = "set", "call"
    elif r < 0.86:
        spec["src"], spec["mode"] = "set", "bykid"
        cands = [i for i, s in enumerate(spec["keys"]) if h.pool[s[0]]["kty"] in types] or [0]
        spec["alt_i"] = rng.choice(cands)
    elif r < 0.95:
        spec["src"], spec["mode"] = "key", rng.choice(["direct", "call"])
        cands = [i for i, s in enumerate(spec["keys"]) if h.pool[s[0]]["kty"] in types] or [0]
        spec["src_i"] = rng.choice(cands)
    elif r < 0.98:
        spec["src"], spec["mode"] = "other", rng.choice(["direct", "call"])
    else:
        spec["src"], spec["mode"] = "emptyset", "direct"


def place_kid(rng, present, kid, positions):
    """distribute a kid over header positions -> dict position -> value (may set two, last one wins)"""
    if not present:
        return {}
    pos = rng.choice(positions)
    out = {pos: kid}
    others = [p for p in positions if p != pos]
    if others and rng.random() < 0.12:
        out[rng.choice(others)] = rng.choice(["shadowed", "k1", ""])
    return out


def gen_jws_produce(h):
    rng = h.rng
    kty = rng.choice(["oct", "oct", "EC", "EC", "OKP", "RSA"])
    alg = rng.choice(JWS_ALGS[kty])
    subs = {"EC": ["P-384"] if alg == "ES384" else ["P-256"]} if (kty == "EC" and rng.random() < 0.8) else None
    if kty == "OKP" and rng.random() < 0.8:
        subs = {"OKP": ["Ed25519"]}
    specs = gen_set(h, [kty], subs=subs)
    ser = rng.choice(["compact", "compact", "flat", "flat", "general", "jwt", "c7797", "c7797", "c7797", "j7797", "j7797"])
    spec = {"fam": "jws", "ser": ser, "keys": specs, "algs": [alg]}
    gen_mode(h, spec, [kty])
    nm = rng.choice([1, 2, 2, 3]) if ser == "general" else 1
    b64 = None
    if ser in ("c7797", "j7797"):
        # RFC 7797: b64 false (unencoded payload, attached when URL-safe, else detached), true, or absent
        b64 = rng.choice([False, False, False, True, None])
        pls = [b"c14-payload~x_1", b"c14 payload $", "c14 \u00e9".encode()] + ([b"\xff\xfe c14"] if ser == "c7797" else [])
        spec["payload_hex"] = rng.choice(pls).hex()
    hdrs = []
    for _ in range(nm):
        present, kid = gen_hdr_kid(h, specs, [kty])
        if ser in ("compact", "jwt", "c7797"):
            prot = {"alg": alg}
            if b64 is not None:
                prot["b64"] = b64
                prot["crit"] = ["b64"]
            if present:
                prot["kid"] = kid
            if rng.random() < 0.2:
                prot["cty"] = "x"
            hdrs.append({"protected": prot})
        else:
            where = place_kid(rng, present, kid, ["protected", "header"])
            alg_pos = rng.choice(["protected", "protected", "header"])
            m = {}
            prot, hdr = {}, {}
            (prot if alg_pos == "protected" else hdr)["alg"] = alg
            if b64 is not None:
                prot["b64"] = b64
                prot["crit"] = ["b64"]
            if "protected" in where:
                prot["kid"] = where["protected"]
            if "header" in where:
                hdr["kid"] = where["header"]
            r = rng.random()
            if prot or r < 0.1:
                m["protected"] = prot
            elif r < 0.2:
                m["protected"] = None
            if hdr or rng.random() < 0.15:
                m["header"] = hdr
            elif rng.random() < 0.1:
                m["header"] = None
            hdrs.append(m)
    spec["hdrs"] = hdrs
    return spec


def jwe_alg_for(h, kty, rng):
    if kty == "oct":
        alg = rng.choice(["A128KW", "A256KW", "dir", "PBES2-HS256+A128KW", "A128GCMKW", "A192KW"])
        enc = "A128GCM"
        size = {"A128KW": 128, "A256KW": 256, "A192KW": 192, "A128GCMKW": 128, "dir": 128}.get(alg)
        if alg == "dir" and rng.random() < 0.5:
            enc, size = "A128CBC-HS256", 256
        return alg, enc, ({"oct": [size]} if size and rng.random() < 0.85 else None)
    if kty == "RSA":
        return rng.choice(["RSA-OAEP", "RSA-OAEP-256", "RSA1_5"]), rng.choice(["A128GCM", "A128CBC-HS256"]), None
    alg = rng.choice(["ECDH-ES", "ECDH-ES+A128KW", "ECDH-ES+A256KW"])
    subs = None
    if rng.random() < 0.8:
        subs = {"OKP": ["X25519"]}
    return alg, rng.choice(["A128GCM", "A256GCM"]), subs


def gen_jwe_produce(h, onepu=False):
    rng = h.rng
    sender = None
    if onepu:
        crv = rng.choice(["P-256", "P-256", "X25519", "P-384"])
        kty = "EC" if crv.startswith("P-") else "OKP"
        alg, enc = rng.choice([("ECDH-1PU", "A128GCM"), ("ECDH-1PU", "A256CBC-HS512"), ("ECDH-1PU+A128KW", "A128CBC-HS256")])
        subs = {"EC": [crv], "OKP": [crv]} if rng.random() < 0.85 else {"OKP": ["X25519"]}
        types = ["EC", "OKP"]
        same = [i for i, p in enumerate(h.pool) if p["sub"] == crv]
        rng.shuffle(same)
        n_s = min(rng.choice([1, 2, 2, 3]), len(same) - 1)
        s_idx, r_idx = same[:n_s], same[n_s:]
        specs = gen_set(h, [kty], subs=subs, must=r_idx[:rng.choice([1, 1, 2])], exclude=s_idx)
        used = {s[0] for s in specs}
        extra = [i for i in range(len(h.pool)) if i not in used and i not in s_idx and
                 (h.pool[i]["kty"] == "oct" or rng.random() < 0.15) and h.pool[i]["kty"] != "RSA"]
        s_all = s_idx + (rng.sample(extra, 1) if extra and rng.random() < 0.5 else [])
        rng.shuffle(s_all)
        sk, seen = [], set()
        for i in s_all:
            kid = gen_kid(rng, h.pool[i]["thumb"])
            if (kid if kid is not None else h.pool[i]["thumb"]) in seen:
                kid = "s~%d" % i
            seen.add(kid if kid is not None else h.pool[i]["thumb"])
            sk.append([i, kid])
        sender = {"keys": sk, "src": "set" if rng.random() < 0.85 else "key",
                  "src_i": [j for j, x in enumerate(sk) if x[0] in s_idx][0]}
    else:
        kty = rng.choice(["oct", "oct", "oct", "EC", "EC", "OKP", "RSA"])
        alg, enc, subs = jwe_alg_for(h, kty, rng)
        types = ["EC", "OKP"] if kty in ("EC", "OKP") else [kty]
        specs = gen_set(h, [kty], subs=subs)
    ser = rng.choice(["compact", "compact", "flat", "flat", "general", "jwt"])
    if onepu and ser == "jwt":
        ser = "compact"
    spec = {"fam": "jwe", "ser": ser, "keys": specs, "algs": [alg, enc], "sender": sender}
    gen_mode(h, spec, types)
    direct = alg in ("dir", "ECDH-ES", "ECDH-1PU")
    nr = rng.choice([1, 2, 2, 3]) if (ser == "general" and (not direct or rng.random() < 0.1)) else 1

    def skid_for():
        if not onepu or rng.random() < 0.5:
            return False, None
        r = rng.random()
        if r < 0.7:
            return True, eff_kid(h, rng.choice([x for x in sender["keys"] if h.pool[x[0]]["sub"] == crv] or sender["keys"]))
        if r < 0.9:
            return True, "no-such-sender"
        return True, rng.choice(["", 0, ["x"]])
    if ser in ("compact", "jwt"):
        present, kid = gen_hdr_kid(h, specs, types)
        prot = {"alg": alg, "enc": enc}
        if present:
            prot["kid"] = kid
        sp, skid = skid_for()
        if sp:
            prot["skid"] = skid
        if rng.random() < 0.03:
            del prot["alg"]
        spec["hdrs"] = {"protected": prot}
        return spec
    prot, unprot = {"enc": enc}, {}
    alg_pos = rng.choice(["protected", "unprotected", "recipient"])
    if alg_pos == "protected":
        prot["alg"] = alg
    elif alg_pos == "unprotected":
        unprot["alg"] = alg
    recs = []
    shared_done = False
    for _ in range(nr):
        present, kid = gen_hdr_kid(h, specs, types)
        positions = ["recipient", "recipient"] + ([] if shared_done else ["protected", "unprotected"])
        where = place_kid(rng, present, kid, positions)
        rh = {}
        if alg_pos == "recipient":
            rh["alg"] = alg
        if "protected" in where:
            prot["kid"] = where["protected"]; shared_done = True
        if "unprotected" in where:
            unprot["kid"] = where["unprotected"]; shared_done = True
        if "recipient" in where:
            rh["kid"] = where["recipient"]
        sp, skid = skid_for()
        if sp:
            rh["skid"] = skid
        recs.append(rh if (rh or rng.random() < 0.3) else None)
    spec["hdrs"] = {"protected": prot, "unprotected": unprot if (unprot or rng.random() < 0.2) else None, "recipients": recs}
    return spec


# ---- forging tokens with one known key and an arbitrary kid header
def forge_jws(h, key, alg, ser, members, payload=b"forged"):
    """members: list of (protected dict or None, header dict or None); signed with `key` whatever the kid says"""
    from joserfc.jws import JWSRegistry
    algm = JWSRegistry.algorithms[alg]
    pseg = b64u(payload)
    sigs = []
    for prot, hdr in members:
        hseg = b64u(json.dumps(prot, separators=(",", ":")).encode()) if prot else ""
        if ser in ("c7797", "j7797"):
            # RFC 7797, b64 = false: the signing input carries the payload itself
            sig = b64u(algm.sign(hseg.encode() + b"." + payload, key))
            if ser == "c7797":
                import re
                att = re.match(rb"^[a-zA-Z0-9\-_~]+$", payload) is not None
                return hseg + "." + (payload.decode() if att else "") + "." + sig
            out = {"payload": payload.decode(), "signature": sig}
            if prot:
                out["protected"] = hseg
            if hdr is not None:
                out["header"] = hdr
            return out
        sig = b64u(algm.sign((hseg + "." + pseg).encode(), key))
        if ser in ("compact", "jwt"):
            return hseg + "." + pseg + "." + sig
        s = {"signature": sig}
        if prot:
            s["protected"] = hseg
        if hdr is not None:
            s["header"] = hdr
        sigs.append(s)
    if ser == "flat":
        return {"payload": pseg, **sigs[0]}
    return {"payload": pseg, "signatures": sigs}


# ----------------------------------------------------------------------------
# the run
# ----------------------------------------------------------------------------
def run(ctx):
    import time
    t0 = time.time()
    ok, log = ctx.prove()
    t1 = time.time()
    h = H(ctx.rng)
    h.make_pool()
    cases, meta = [], []
    dist = {}

    def add(term, m):
        cases.append(term)
        meta.append(m)
        dist[m[0]] = dist.get(m[0], 0) + 1
        ctx.note_case((m[0], term), nontrivial=True)

    def report(sig, desc, spec, extra=None):
        ctx.violation(sig, desc, replay_dict(h, sig["kind"], spec, extra))

    with Patches(h):
        main_loop(ctx, h, add, report, dist)
        # ECDH-1PU: registration is process-global, so this phase comes last
        from joserfc.drafts.jwe_ecdh_1pu import register_ecdh_1pu
        register_ecdh_1pu()
        h.drafts = True
        main_loop(ctx, h, add, report, dist, onepu=True)

    ctx.coverage["input_distribution"] = dist
    t2 = time.time()
    ctx.coverage["rule"] = ("every generated key set / header / operation is run through the real joserfc entry points; "
                            "each logged guess_key / _guess_sender_key / get_by_kid / pick_random_key call and each entry-point "
                            "call is compared with the Gallina model (c14_check) and, independently, with the property "
                            "(which key really verifies / decrypts the token, kid member, InvalidKeyIdError)")
    for c in cases[:2000:400]:
        ctx.sample({"coq_case": c[:300]})

    ev = lib.CoqEval(["From Model Require Import Base PyVal TableTypes C14KeySet C14Cases."], "c14case", "c14_check", "c14_show",
                     shard=400, max_chars=300000, preamble=thumb_preamble(h))
    res = ev.run(cases, jobs=8)
    for attempt in range(2):
        # a coqc killed by the machine (out of memory under load) leaves no Coq error message: evaluate again, slowly
        if res["errors"] and not any("Error" in err for _, err in res["errors"]):
            ctx.notes.append("case evaluation: %d shard(s) died without a Coq error, retrying" % len(res["errors"]))
            res = ev.run(cases, jobs=2)
    ctx.notes.append("wall: prove %.1fs, implementation runs %.1fs, coq evaluation of %d cases %.1fs" % (t1 - t0, t2 - t1, len(cases), time.time() - t2))
    ctx.coverage["traces_validated_against_impl"] = res["evaluated"]
    ctx.coverage["disagreements_checked"] = len(res["failing"])
    direct = len(ctx.violations)
    for i in res["failing"][:20]:
        m = meta[i]
        ctx.violation({"kind": "correspondence", "fn": m[0]},
                      "model and implementation disagree on %s: %s" % (m[0], m[1]),
                      {"case": cases[i][:6000], "spec": m[2] if len(m) > 2 else None, "no_failing_input_found": direct == 0,
                       "pool": {str(j): h.pool[j] for j in (m[3] if len(m) > 3 else [])},
                       "broken": "correspondence model/C14Cases.v:c14_check vs joserfc key selection"})
    for si, err in res["errors"]:
        ctx.violation({"kind": "correspondence-error"}, "coqc failed on a generated case file",
                      {"output": err, "no_failing_input_found": True, "broken": "case evaluation"})
    if not ok:
        ctx.violation({"kind": "proof-broken"}, "props/C14.v or its closure no longer compiles",
                      {"log": log[-3000:], "no_failing_input_found": direct == 0 and not res["failing"],
                       "broken": "theorems of props/C14.v"})
    ctx.assumptions += [
        "a key is abstracted to (kid, kty, identity of the material, thumbprint); signing / verification / encryption / decryption "
        "primitives are not modelled: 'the token was made with key i' is observed on the implementation by trial with every single key",
        "random.choice is a chooser returning an element of its non-empty argument (hypothesis chooser_ok); in the differential run "
        "it is replaced by a recorded index",
        "a callable key source is modelled by the value it returns (it may inspect the header object)",
        "RFC 7638 thumbprints are taken from the implementation (property C13); public export keeps the thumbprint",
        "header validation other than the type of alg/kid (crit, unknown members, ...) is property C15 and is not modelled here",
    ]
    if not ctx.quick:
        ctx.coqchk()


def pool_ids(spec):
    return sorted({s[0] for s in spec["keys"]} | {s[0] for s in (spec.get("sender") or {}).get("keys", [])})


def main_loop(ctx, h, add, report, dist, onepu=False):
    from joserfc.jwk import KeySet, JWKRegistry
    from joserfc.errors import InvalidKeyIdError
    rng = h.rng
    n_scen = ctx.scale(36, 450) if onepu else ctx.scale(200, 3000)
    errors = 0
    for scen in range(n_scen):
        # one scenario in five: the keys of the set are created individually with ONE shared `parameters` dict
        shared_mode = rng.random() < 0.2
        h.no_explicit_kid = shared_mode
        try:
            if onepu:
                spec = gen_jwe_produce(h, onepu=True)
                if spec is None:
                    continue
            else:
                spec = gen_jws_produce(h) if rng.random() < 0.5 else gen_jwe_produce(h)
        finally:
            h.no_explicit_kid = False
        if rng.random() < 0.3:
            generate_key_set_check(h, report, rng, spec)
        spec["orders"] = gen_orders(rng, len(spec["keys"]))
        # the role each operation really uses: JWE encryption with the recipients' PUBLIC keys (all or some of the
        # set public-only), signing with the private set (now and then a public-only member: the algorithm refuses it)
        r = rng.random()
        if spec["fam"] == "jwe":
            p_pub = 1.0 if r < 0.35 else (0.5 if r < 0.65 else 0.0)
        else:
            p_pub = 0.4 if r < 0.12 else 0.0
        spec["pub"] = [h.pool[sp[0]]["kty"] != "oct" and rng.random() < p_pub for sp in spec["keys"]]
        if shared_mode:
            use = "sig" if spec["fam"] == "jws" else "enc"
            spec["shared"] = rng.choice([{"use": use}, {"use": use}, {}, {"use": use, "key_ops": None}][:3])
            spec["pub"] = [False] * len(spec["keys"])
        if spec.get("sender"):
            spec["sender"]["orders"] = gen_orders(rng, len(spec["sender"]["keys"]))
        try:
            h.live = []
            scenario(ctx, h, add, report, dist, spec)
            for live, orig in h.live:
                if live != orig:
                    report({"kind": "caller-parameters-changed"},
                           "the parameters dict %r shared by the keys of the set was changed by the library to %r" % (orig, live), spec)
                    break
        except Exception:       # noqa: an unexpected behaviour of the library must not end the run
            import traceback
            tb = traceback.format_exc()
            errors += 1
            report({"kind": "scenario-error", "error": tb.strip().splitlines()[-1][:120]},
                   "the library behaved in a way the check does not expect in this scenario: %s" % tb.strip().splitlines()[-1][:200],
                   spec, {"traceback": tb[-3000:]})
            h.logging = True
            if errors >= 8:
                break


def generate_key_set_check(h, report, rng, spec, fixed=None):
    """KeySet.generate_key_set with a parameters dict: kids pairwise distinct, each the key's own RFC 7638
    thumbprint, also in the exported JWKS and after import; the caller's dict is unchanged"""
    from joserfc.jwk import KeySet
    if fixed:
        kty, arg, params, n = fixed["kty"], fixed["arg"], copy.deepcopy(fixed["params"]), fixed["count"]
    else:
        kty, arg = rng.choice([("EC", "P-256"), ("EC", "P-384"), ("OKP", "Ed25519"), ("OKP", "X25519"), ("oct", 128), ("oct", 256)])
        params = copy.deepcopy(rng.choice([{"use": "sig"}, {"use": "enc"}, {}, None]))
        n = rng.choice([2, 3, 4])
    orig = copy.deepcopy(params)
    gspec = dict(spec, gks={"kty": kty, "arg": arg, "params": orig, "count": n})
    r = call(KeySet.generate_key_set, kty, arg, params, True, n)
    if r[0] != "ok":
        report({"kind": "generate-key-set-raises"}, "KeySet.generate_key_set(%r, %r, %r, count=%d) raised %r" % (kty, arg, orig, n, r[1]), gspec)
        return
    keys = r[1].keys
    kids = [k.kid for k in keys]
    thumbs = [my_thumb(k.dict_value) for k in keys]
    exported = [d.get("kid") for d in r[1].as_dict(private=False if kty != "oct" else None)["keys"]]
    imp = call(KeySet.import_key_set, r[1].as_dict())
    ikids = [k.kid for k in imp[1].keys] if imp[0] == "ok" else None
    if kids != thumbs or len(set(kids)) != n or exported != thumbs or ikids != thumbs:
        report({"kind": "generate-key-set-kids"},
               "KeySet.generate_key_set(%r, %r, %r, count=%d): kids %r, exported %r, re-imported %r; the keys' own RFC 7638 "
               "thumbprints are %r" % (kty, arg, orig, n, kids, exported, ikids, thumbs), gspec)
    if params != orig:
        report({"kind": "caller-parameters-changed"},
               "KeySet.generate_key_set changed the caller's parameters dict %r to %r" % (orig, params), gspec)


def check_auto_kids(h, keys, before_kids, spec, report, where):
    """every key has a kid; an explicit kid is kept; an automatic kid is the RFC 7638 thumbprint
    (computed here from the sorted required members), whatever the member order of the source"""
    for k, b in zip(keys, before_kids):
        a = k.dict_value.get("kid")
        t = my_thumb(k.dict_value)
        if a is None or (b is not None and a != b):
            report({"kind": "keyset-kid-invariant"}, "%s left a key with kid %r (before: %r)" % (where, a, b), spec)
        elif b is None and a != t:
            report({"kind": "auto-kid-not-thumbprint", "kty": k.key_type},
                   "%s: auto kid of the %s key (member order %s) is %s, the RFC 7638 thumbprint (independent computation: "
                   "sorted required members) is %s" % (where, k.key_type, list(k.dict_value)[:6], a, t), spec)


def scenario(ctx, h, add, report, dist, spec):
    from joserfc.jwk import KeySet, JWKRegistry
    from joserfc.errors import InvalidKeyIdError
    rng = h.rng
    if True:
        fam, ser = spec["fam"], spec["ser"]
        # KeySet construction on fresh key objects
        fresh = h.build_keys(spec)
        shared_mode = spec.get("shared") is not None
        if not shared_mode:
            before = h.c_keys(fresh)
            before_kids = [k.dict_value.get("kid") for k in fresh]
        kset = KeySet(fresh)
        if shared_mode:
            # the keys had no kid (nothing but the shared parameters, which carry none): build the terms afterwards
            before_kids = [None] * len(fresh)
            before = c_list(["(mkKey None \"%s\" %s %s)" % (k.key_type, c_N(h.mid(k)), c_str(k.thumbprint())) for k in fresh])
            kids_now = [k.kid for k in fresh]
            if len(set(kids_now)) != len(kids_now):
                report({"kind": "shared-parameters-duplicate-kids"},
                       "%d different keys created with one shared parameters dict %r got the kids %r" % (
                           len(fresh), spec["shared"], kids_now), spec)
        after = [k.dict_value.get("kid") for k in kset.keys]
        add("CInit %s %s" % (before, c_list([c_opt(x, c_str) for x in after])), ("init", spec["keys"], spec, pool_ids(spec)))
        check_auto_kids(h, fresh, before_kids, spec, report, "KeySet(...)")
        keyset_level(ctx, h, add, report, spec, kset)

        rec = produce(h, spec)
        spec["plan"] = [c["idx"] for c in rec["choices"]]
        for c in guess_cases(h, rec):
            add(c, ("guess", "%s %s produce" % (fam, ser), spec, pool_ids(spec)))
        n = len(rec["pre"])
        add(entry_case(h, rec, [0] * n), ("produce-%s-%s" % (fam, ser), "mode=%s src=%s" % (spec["mode"], spec["src"]), spec, pool_ids(spec)))
        if rec["out"][0] == "err":
            e = rec["out"][1]
            hd0 = merged(rec["pre"][0])
            et0 = expected_types(hd0.get("alg")) if isinstance(hd0.get("alg"), str) else None
            if spec["src"] == "set" and spec["mode"] != "bykid" and not hd0.get("kid") and et0 and not spec.get("sender") \
                    and any(k.key_type in et0 for k in rec["keys"]) and isinstance(e, ValueError) and str(e) == "Invalid key":
                # the pick must not depend on anything but the key type (a recipient key is a PUBLIC key)
                report({"kind": "produce-no-key-picked", "fam": fam, "ser": ser},
                       "no kid, alg %s: the set has keys of the required type %s (%s) but the call failed with %r" % (
                           hd0.get("alg"), et0, [(k.key_type, "private" if k.is_private else "public-only") for k in rec["keys"]], e), spec)
            picked = [g["keyobj"] for g in rec["log"] if g["fn"] == "guess" and g["res"][0] == "ok" and "keyobj" in g]
            if fam == "jws" and picked and not picked[-1].is_private and (isinstance(e, InvalidKeyIdError) or str(e) == "Invalid key"):
                report({"kind": "sign-with-public-key-error", "ser": ser},
                       "a public-only key was selected for signing: the error must come from the algorithm, got %r" % (e,), spec)
            # direct: a key set as source, a (truthy, string) kid that no key has -> InvalidKeyIdError
            if spec["src"] == "set" and spec["mode"] != "bykid" and fam == "jwe":
                hd = merged(rec["pre"][0])
                kid = hd.get("kid")
                if isinstance(kid, str) and kid and not any(k.kid == kid for k in rec["keys"]) and not isinstance(e, InvalidKeyIdError):
                    report({"kind": "produce-unknown-kid-error", "fam": fam, "ser": ser},
                           "kid %r names no key of the set: expected InvalidKeyIdError, got %r" % (kid, e), spec)
            return
        token = rec["out"][1]
        used = check_produced(h, rec, report)
        if any(u is None for u in used):
            return
        # ------------------------------------------------------------ consume what was produced
        cons = []
        base = {"fam": fam, "ser": ser, "token": token, "algs": spec["algs"], "sender": spec.get("sender")}
        if "payload_hex" in spec:
            base["payload_hex"] = spec["payload_hex"]
            # a detached payload must be handed to the consumer; an attached one may be
            detached = ser == "c7797" and isinstance(token, str) and token.split(".")[1] == "" and bool(_payload_of(spec))
            base["give_payload"] = detached or rng.random() < 0.3
            cv = rec["caller_hdrs"][0].get("protected") if ser == "c7797" else rec["caller_hdrs"][0].get("header")
            k = "caller_dict_has_kid" if isinstance(cv, dict) and "kid" in cv else "caller_dict_without_kid"
            dist[k] = dist.get(k, 0) + 1
        if spec["src"] in ("set", "key"):
            cons.append(dict(base, keys=spec["keys"], src="set", mode="direct", orders=spec["orders"]))
            # the consuming side builds ITS key objects from differently ordered JWK dicts, in another configuration
            cons.append(dict(base, keys=spec["keys"], src="set", mode="call", orders=gen_orders(rng, len(spec["keys"])),
                             reg=gen_reg(rng, fam)))
        for cs in cons:
            if cs.get("sender"):
                cs["sender"] = dict(cs["sender"], orders=gen_orders(rng, len(cs["sender"]["keys"])))
            cs["pids"] = used
            crec = consume(h, cs)
            for c in guess_cases(h, crec):
                add(c, ("guess", "%s %s consume" % (fam, ser), cs, pool_ids(cs)))
            add(entry_case(h, crec, used), ("consume-%s-%s" % (fam, ser), "own token, mode=%s" % cs["mode"], cs, pool_ids(cs)))
            verdicts = expected_consume(h, crec["keys"], crec["pre"], used)
            if spec.get("sender") and not all(isinstance(merged(g).get("skid", "x"), str) and merged(g).get("skid", "x") for g in crec["pre"]):
                continue    # empty skid: recorded in props/C14.v (c14_x_empty_kid), a degenerate identifier
            judge_consume(h, crec, verdicts, report, "token produced by the library")
        # public set: export, import, consume (asymmetric keys only)
        if spec["src"] == "set" and spec["mode"] != "bykid":
            rec["add"] = add
            public_roundtrip(h, rec, used, token, report, add)
        # ------------------------------------------------------------ forged tokens against the set
        forged_consume(ctx, h, add, report, spec, rec)


def judge_consume(h, crec, verdicts, report, what):
    from joserfc.errors import InvalidKeyIdError
    out = crec["out"]
    spec = crec["spec"]
    fam = spec["fam"]
    cfg = spec.get("reg") or {}
    what = "%s [registry %s]" % (what, cfg or "default")
    lenient = fam == "jwe" and not cfg.get("va", True)
    # JWS: signatures are looked up and verified one after the other, the first one that cannot succeed decides;
    # JWE: the keys of ALL recipients are looked up before anything is decrypted
    decider = None
    for v in verdicts:
        if v == "ok" or (v == "fail" and fam == "jwe"):
            continue
        decider = v
        break
    if all(v == "ok" for v in verdicts):
        if out[0] != "ok":
            report({"kind": "consume-named-key-rejected", "fam": fam, "ser": spec["ser"]},
                   "%s: kid names the key it was made with, but consumption failed with %r" % (what, out[1]), spec)
    elif out[0] == "ok":
        if lenient and decider is None and any(v == "ok" for v in verdicts):
            return      # verify_all_recipients=False: one recipient that decrypts suffices, every kid was resolved
        report({"kind": "consume-accepted-wrong-key", "fam": fam, "ser": spec["ser"]},
               "%s: accepted although the kid does not name the producing key (%s)" % (what, verdicts), spec)
    elif decider == "kid-error" and not isinstance(out[1], InvalidKeyIdError):
        # JWS validates the header first (C15); a string / absent kid passes that validation
        report({"kind": "consume-unknown-kid-error", "fam": fam, "ser": spec["ser"]},
               "%s: a kid names no key of the set (or no kid and several keys) %s: expected InvalidKeyIdError, got %r" % (
                   what, verdicts, out[1]), spec)


def keyset_level(ctx, h, add, report, spec, kset):
    """direct calls of get_by_kid / pick_random_key / as_dict / import_key_set"""
    from joserfc.jwk import KeySet
    from joserfc.errors import InvalidKeyIdError
    rng = h.rng
    keys = kset.keys
    ckeys = h.c_keys(keys)
    pids = pool_ids(spec)
    kids = [rng.choice(keys).kid, None, rng.choice(["nope", "", (keys[0].kid or "") + "x", (keys[-1].kid or "z")[:-1]]),
            copy.deepcopy(rng.choice(NONSTR_KIDS))]
    for kid in kids:
        r = call(kset.get_by_kid, kid) if kid is not None or rng.random() < 0.5 else call(kset.get_by_kid)
        rr = ("ok", h.mid(r[1])) if r[0] == "ok" else ("err", exn_class(r[1]))
        add("CLookup %s %s %s" % (ckeys, c_pv(kid), c_res(rr, c_N)), ("get_by_kid", repr(kid), spec, pids))
        # direct
        named = [k for k in keys if isinstance(kid, str) and k.kid == kid]
        if kid is None and len(keys) == 1:
            named = [keys[0]]
        if named:
            if r[0] != "ok" or r[1] is not named[0]:
                report({"kind": "lookup-wrong-key"}, "get_by_kid(%r) did not return the first key with that kid" % (kid,), spec, {"kid": kid})
        elif r[0] == "ok" or not isinstance(r[1], InvalidKeyIdError):
            report({"kind": "lookup-no-error"}, "get_by_kid(%r): no such key, expected InvalidKeyIdError, got %r" % (kid, r[1]), spec, {"kid": kid})
    algs = [rng.choice(spec["algs"]), rng.choice(["HS256", "RS256", "ES256", "EdDSA", "ECDH-ES", "A128KW", "RSA-OAEP", "dir", "PS384", "ES256K"]),
            rng.choice(["nope", "", "none", 5, None, True, ["HS256"], {"a": 1}, 1.5])]
    for alg in algs:
        h.choices = []
        r = call(kset.pick_random_key, alg)
        ch = h.choices[:]
        rr = ("ok", (h.mid(r[1]) if r[1] is not None else None)) if r[0] == "ok" else ("err", exn_class(r[1]))
        cands = "(Some %s)" % c_list([c_N(x) for x in ch[0]["cands"]]) if ch else "None"
        add("CPick %s %s %s %s %s %s" % (h.tsel(), ckeys, c_pv(alg), c_nat(ch[0]["idx"] if ch else 0), cands,
                                       c_res(rr, lambda v: c_opt(v, c_N))), ("pick_random_key", repr(alg), spec, pids))
        et = expected_types(alg) if isinstance(alg, str) else None
        if et is not None and r[0] == "ok":
            if r[1] is None:
                if any(k.key_type in et for k in keys):
                    report({"kind": "pick-none"}, "pick_random_key(%r) found no key although the set has a %s key (keys: %s)" % (
                        alg, et, [(k.key_type, "private" if k.is_private else "public-only") for k in keys]), spec, {"alg": alg})
            elif r[1].key_type not in et or all(r[1] is not k for k in keys):
                report({"kind": "pick-wrong-type", "alg": alg}, "pick_random_key(%r) returned a %s key" % (alg, r[1].key_type), spec, {"alg": alg})
    # export / import
    if rng.random() < 0.6:
        exp = call(kset.as_dict, private=True if all(k.is_private for k in keys) else None)
        if exp[0] != "ok":
            report({"kind": "export-raises"}, "KeySet.as_dict(private=True) raised %r" % (exp[1],), spec)
            return
        entries = exp[1]["keys"]
        add("CExport %s %s" % (ckeys, c_list(["(%s, %s, %s)" % (c_opt(d.get("kty"), lambda s: '"%s"%%string' % s),
                                                                  c_opt(d.get("kid"), c_str), c_N(h.tid[_thumb(d)])) for d in entries])),
            ("as_dict", "", spec, pids))
        ents = copy.deepcopy(entries)
        mal = rng.random()
        if mal < 0.08:
            ents[rng.randrange(len(ents))].pop("kty")
        elif mal < 0.16:
            ents[rng.randrange(len(ents))]["kty"] = rng.choice(["foo", "", "OCT", "rsa"])
        elif mal < 0.3:
            ents[rng.randrange(len(ents))].pop("kid")
        cents = []
        for d, k in zip(ents, keys):
            kty = d.get("kty")
            cents.append("(mkEntry %s %s %s %s)" % (c_opt(kty, lambda s: '"%s"%%string' % s), c_opt(d.get("kid"), c_str),
                                                    c_N(h.mid(k)), c_str(k.thumbprint())))
        imp = call(KeySet.import_key_set, {"keys": copy.deepcopy(ents)})
        if imp[0] == "ok":
            rr = ("ok", [(k.dict_value.get("kid"), k.key_type, h.mid(k)) for k in imp[1].keys])
        else:
            rr = ("err", exn_class(imp[1]))
        add("CImport %s %s" % (c_list(cents), c_res(rr, lambda l: c_list(["(%s, \"%s\"%%string, %s)" % (c_opt(a, c_str), b, c_N(c)) for a, b, c in l]))),
            ("import_key_set", "malformed" if mal < 0.16 else "", spec, pids))
        if mal >= 0.3:      # direct: round trip preserves every key
            if imp[0] != "ok":
                report({"kind": "import-export-raises"}, "import_key_set(as_dict()) raised %r" % (imp[1],), spec)
            else:
                a = [(k.kid, k.key_type, h.mid(k)) for k in keys]
                b = [(k.kid, k.key_type, h.mid(k)) for k in imp[1].keys]
                if a != b or any(k.kid is None for k in imp[1].keys):
                    report({"kind": "import-export-roundtrip"}, "import_key_set(as_dict()) changed the keys: %r -> %r" % (a, b), spec)
        if any("kid" not in d or not isinstance(d["kid"], str) for d in entries):
            report({"kind": "export-without-kid"}, "KeySet.as_dict() exported a key without kid", spec)


def _thumb(d):
    return my_thumb(d)


_RSA_T = {}


def _rsa_thumb(d):
    key = d["n"]
    if key not in _RSA_T:
        from joserfc.jwk import JWKRegistry
        _RSA_T[key] = JWKRegistry.import_key({"kty": "RSA", "n": d["n"], "e": d["e"]}).thumbprint()
    return _RSA_T[key]


def public_roundtrip(h, rec, used, token, report, add):
    """export the set without private parts, import it, consume the token with it"""
    from joserfc.jwk import KeySet
    spec = rec["spec"]
    fam, ser = spec["fam"], spec["ser"]
    ks = rec["ks"]
    if fam == "jwe":
        return public_set_checks(h, rec, report)      # decryption needs private keys; check the set only
    ukeys = [k for k in rec["keys"] if h.mid(k) in used]
    if any(k.key_type == "oct" for k in ukeys):
        return public_set_checks(h, rec, report)
    exp = call(ks.as_dict, private=False)
    if exp[0] != "ok":
        report({"kind": "export-raises"}, "KeySet.as_dict(private=False) raised %r" % (exp[1],), spec)
        return
    check_public_entries(h, rec, exp[1]["keys"], report)
    ents = [d for d in exp[1]["keys"] if d.get("kty") != "oct"]     # an oct key has no public form
    pub = call(KeySet.import_key_set, {"keys": copy.deepcopy(ents)})
    if pub[0] != "ok":
        report({"kind": "import-export-raises"}, "import_key_set(as_dict(private=False)) raised %r" % (pub[1],), spec)
        return
    pks = pub[1]
    want = [(k.kid, k.key_type, h.mid(k)) for k in rec["keys"] if k.key_type != "oct"]
    got = [(k.kid, k.key_type, h.mid(k)) for k in pks.keys]
    if want != got:
        report({"kind": "import-export-roundtrip"}, "public export/import changed the keys: %r -> %r" % (want, got), spec)
        return
    def consume_with(pks, label):
        if any(k.is_private for k in pks.keys):
            return
        from joserfc import jws, jwt, rfc7797
        h.log, h.choices = [], []
        arg = pks if h.rng.random() < 0.5 else (lambda obj: pks)
        if ser == "c7797":
            out = call(rfc7797.deserialize_compact, token, arg, payload=_payload_of(spec), algorithms=spec["algs"])
        elif ser == "j7797":
            out = call(rfc7797.deserialize_json, copy.deepcopy(token), arg, algorithms=spec["algs"])
        elif ser == "compact":
            out = call(jws.deserialize_compact, token, arg, algorithms=spec["algs"])
        elif ser == "jwt":
            out = call(jwt.decode, token, arg, algorithms=spec["algs"])
        else:
            out = call(jws.deserialize_json, copy.deepcopy(token), arg, algorithms=spec["algs"])
        log = h.log
        kids = [k.kid for k in rec["keys"]]
        if len(set(kids)) != len(kids):
            return          # duplicate kids: the kid recorded does not name the producing key uniquely
        if any(bool(merged(g).get("kid")) and not any(k.kid == merged(g).get("kid") for k in rec["keys"]) for g in rec["pre"]):
            return          # (cannot happen for a produced token: an unknown kid was named)
        if out[0] != "ok":
            report({"kind": "public-set-rejects", "fam": fam, "ser": ser},
                   "token produced with the private key set is rejected by the %s: %r" % (label, out[1]), spec)
            return
        got_ids = [e["res"][1][0] for e in log if e["fn"] == "guess" and e["res"][0] == "ok"]
        if got_ids != used:
            report({"kind": "public-set-other-key", "fam": fam, "ser": ser},
                   "public set verified with keys %r, token made with %r" % (got_ids, used), spec)
        # the same as Coq cases (model: import (export ks) then consume)
        for e in log:
            if e["fn"] == "guess":
                exp_t = c_res(e["res"], lambda v: "(%s, %s, %s)" % (c_N(v[0]), c_opt(v[1], c_str), c_guest(v[2])))
                add("CGuess %s %s (KSSet %s) %s false 0%%nat %s" % (h.tsel(), "MDirect", h.c_keys(pks.keys), c_guest(e["pre"]), exp_t),
                    ("guess", "public set consume", spec, pool_ids(spec)))

    consume_with(pks, "imported public export (as_dict(private=False)) of the same set")
    pub2 = independent_public_set(h, rec, report)
    if pub2 is None:
        return
    consume_with(pub2, "public JWKS of the same keys built from the key material (other member order)")


def independent_public_set(h, rec, report):
    """the verifier's own JWKS: public members taken from the key material, explicit kids only, another member
    order; keys without explicit kid must get the SAME (thumbprint) kid as on the producing side"""
    from joserfc.jwk import KeySet
    spec = rec["spec"]
    ents2 = []
    for sp in spec["keys"]:
        pj = h.pool[sp[0]]["jwk"]
        if pj["kty"] == "oct":
            continue
        d = {k: pj[k] for k in PUBLIC[pj["kty"]]}
        if sp[1] is not None:
            d["kid"] = sp[1]
        ents2.append(reorder(d, h.rng.choice(ORDERS)))
    if not ents2:
        return None
    pub2 = call(KeySet.import_key_set, {"keys": ents2})
    if pub2[0] != "ok":
        report({"kind": "import-export-raises"}, "import_key_set(public JWKS built from the key material) raised %r" % (pub2[1],), spec)
        return None
    want = [(k.kid, k.key_type, h.mid(k)) for k in rec["keys"] if k.key_type != "oct"]
    got2 = [(k.kid, k.key_type, h.mid(k)) for k in pub2[1].keys]
    if want != got2:
        report({"kind": "public-jwks-other-kids"},
               "the same keys imported from a public JWKS (other member order, no kid for thumbprint-kid keys) get other kids: "
               "private set %r, public set %r" % (want, got2), spec)
        return None
    return pub2[1]


def check_public_entries(h, rec, entries, report):
    """KeySet.as_dict(private=False): one entry per key, in order, each with the key's kid and type"""
    spec = rec["spec"]
    want = [(k.kid, k.key_type) for k in rec["keys"]]
    got = [(d.get("kid"), d.get("kty")) for d in entries]
    if want != got:
        report({"kind": "export-entries"}, "KeySet.as_dict(private=False) entries (kid, kty) %r differ from the keys %r" % (got, want), spec)
    add = rec.get("add")
    if add is not None and len(entries) == len(rec["keys"]):
        ids = [h.tid[_thumb(d)] if d.get("kty") != "oct" else h.mid(k) for d, k in zip(entries, rec["keys"])]
        add("CExport %s %s" % (h.c_keys(rec["keys"]), c_list(["(%s, %s, %s)" % (
            c_opt(d.get("kty"), lambda t: '"%s"%%string' % t), c_opt(d.get("kid"), c_str), c_N(i)) for d, i in zip(entries, ids)])),
            ("as_dict", "public", spec, pool_ids(spec)))


def public_set_checks(h, rec, report):
    from joserfc.jwk import KeySet
    spec = rec["spec"]
    independent_public_set(h, rec, report)
    exp = call(rec["ks"].as_dict, private=False)
    if exp[0] != "ok":
        report({"kind": "export-raises"}, "KeySet.as_dict(private=False) raised %r" % (exp[1],), spec)
        return
    check_public_entries(h, rec, exp[1]["keys"], report)
    ents = [d for d in exp[1]["keys"] if d.get("kty") != "oct"]
    if not ents:
        return
    pub = call(KeySet.import_key_set, {"keys": copy.deepcopy(ents)})
    if pub[0] != "ok":
        report({"kind": "import-export-raises"}, "import_key_set(as_dict(private=False)) raised %r" % (pub[1],), spec)
        return
    want = [(k.kid, k.key_type, h.mid(k)) for k in rec["keys"] if k.key_type != "oct"]
    got = [(k.kid, k.key_type, h.mid(k)) for k in pub[1].keys]
    if want != got:
        report({"kind": "import-export-roundtrip"}, "public export/import changed the keys: %r -> %r" % (want, got), spec)


def forged_consume(ctx, h, add, report, spec, rec):
    """tokens made with ONE known key of the set and an arbitrary kid, consumed against the set"""
    from joserfc import jws, jwe
    rng = h.rng
    fam, ser = spec["fam"], spec["ser"]
    keys = rec["keys"]
    alg = spec["algs"][0]
    et = expected_types(alg) or []
    cands = [i for i, k in enumerate(keys) if k.key_type in et]
    if not cands:
        return
    for _ in range(2 if ctx.quick else 3):
        fi = rng.choice(cands)
        fkey = keys[fi]
        fid = h.mid(fkey)
        r = rng.random()
        if r < 0.35:
            present, kid = True, fkey.kid
        elif r < 0.55:
            others = [k for k in keys if k is not fkey and (k.key_type in et or rng.random() < 0.3)]
            present, kid = True, (rng.choice(others).kid if others else "nope")
        elif r < 0.70:
            present, kid = False, None
        elif r < 0.82:
            present, kid = True, rng.choice(["nope", fkey.kid + "x", fkey.kid[:-1], "", "K"])
        else:
            present, kid = True, copy.deepcopy(rng.choice(NONSTR_KIDS))
        fser = rng.choice(["compact", "flat", "general", "jwt", "c7797", "c7797", "j7797"]) if fam == "jws" else ser
        token = None
        give_payload = False
        if fam == "jws":
            if fser == "c7797":
                prot = {"alg": alg, "b64": False, "crit": ["b64"]}
                if present:
                    prot["kid"] = kid
                members = [(prot, None)]
                payload = rng.choice([b"forged~1", b"forged $ payload"])
                give_payload = payload != b"forged~1" or rng.random() < 0.3
            elif fser == "j7797":
                prot = {"alg": alg, "b64": False, "crit": ["b64"]}
                where = place_kid(rng, present, kid, ["protected", "header"])
                hdr = {}
                if "protected" in where:
                    prot["kid"] = where["protected"]
                if "header" in where:
                    hdr["kid"] = where["header"]
                members = [(prot, hdr if (hdr or rng.random() < 0.2) else None)]
                payload = rng.choice([b"forged~1", b"forged $ payload"])
            elif fser in ("compact", "jwt"):
                prot = {"alg": alg}
                if present:
                    prot["kid"] = kid
                if fser == "jwt":
                    prot = {"typ": "JWT", **prot}
                members = [(prot, None)]
                payload = b'{"sub":"forged"}'
            else:
                payload = b"forged"
                members = []
                nm = rng.choice([1, 2, 3]) if fser == "general" else 1
                odd = rng.choice([0, nm - 1])
                for j in range(nm):
                    where = place_kid(rng, present, kid, ["protected", "header"]) if j == odd else \
                        place_kid(rng, True, fkey.kid, ["protected", "header"])
                    prot, hdr = {}, {}
                    (prot if rng.random() < 0.7 else hdr)["alg"] = alg
                    if "protected" in where:
                        prot["kid"] = where["protected"]
                    if "header" in where:
                        hdr["kid"] = where["header"]
                    members.append((prot or None, hdr if (hdr or rng.random() < 0.2) else None))
            tk = call(forge_jws, h, h.private_twin(fkey), alg, fser, members, payload)
            if tk[0] != "ok":
                continue
            token = tk[1]
            pids = [fid] * len(members)
        else:
            # encrypt with the single key; unprotected positions are edited afterwards
            reg = jwe.JWERegistry(algorithms=spec["algs"])
            sender = None
            sspec = spec.get("sender")
            if sspec:
                sender = h.build_key(tuple(sspec["keys"][0]))
            h.logging = False
            multi_pids = None
            try:
                if fser in ("compact", "jwt"):
                    prot = {"alg": alg, "enc": spec["algs"][1]}
                    if fser == "jwt":
                        prot = {"typ": "JWT", **prot}
                    if present and isinstance(kid, str):
                        prot["kid"] = kid
                    elif present:
                        continue
                    if sender is not None:
                        prot["skid"] = sender.kid if rng.random() < 0.8 else rng.choice(["nope", ""])
                    tk = call(jwe.encrypt_compact, prot, b'{"sub":"forged"}', fkey, registry=reg, sender_key=sender)
                elif (alg not in ("dir", "ECDH-ES", "ECDH-1PU") and sender is None and rng.random() < 0.55):
                    # general JSON with 1-3 recipients, each made with its own key of the set and naming it;
                    # afterwards ONE recipient (first / last / only) gets the chosen kid
                    fser = "general"
                    others = [k for i, k in enumerate(keys) if i in cands and k is not fkey]
                    rng.shuffle(others)
                    rkeys = [fkey] + others[:rng.choice([0, 1, 2])]
                    rng.shuffle(rkeys)
                    obj = jwe.GeneralJSONEncryption({"alg": alg, "enc": spec["algs"][1]}, b"forged", None)
                    for rk in rkeys:
                        obj.add_recipient({"kid": rk.kid}, rk)
                    tk = call(jwe.encrypt_json, obj, None, registry=reg)
                    if tk[0] == "ok":
                        odd = rng.choice([0, len(rkeys) - 1])
                        hd = tk[1]["recipients"][odd].setdefault("header", {})
                        if present:
                            hd["kid"] = kid
                        else:
                            hd.pop("kid", None)
                        multi_pids = [h.mid(rk) for rk in rkeys]
                else:
                    cls = jwe.FlattenedJSONEncryption if fser == "flat" else jwe.GeneralJSONEncryption
                    pos = rng.choice(["protected", "unprotected", "recipient"])
                    prot = {"alg": alg, "enc": spec["algs"][1]}
                    if present and pos == "protected" and isinstance(kid, str):
                        prot["kid"] = kid
                    elif present and pos == "protected":
                        pos = "recipient"
                    obj = cls(prot, b"forged", None)
                    obj.add_recipient({"skid": sender.kid} if sender is not None else None, fkey)
                    tk = call(jwe.encrypt_json, obj, None, registry=reg, sender_key=sender)
                    if tk[0] == "ok" and present and pos != "protected":
                        t = tk[1]
                        if pos == "unprotected":
                            t["unprotected"] = {"kid": kid}
                        elif "recipients" in t:
                            t["recipients"][0].setdefault("header", {})["kid"] = kid
                        else:
                            t.setdefault("header", {})["kid"] = kid
            finally:
                h.logging = True
            if tk[0] != "ok":
                continue
            token = tk[1]
            pids = multi_pids if multi_pids else [fid]
        mode = rng.choice(["direct", "direct", "call"])
        cs = {"fam": fam, "ser": fser, "token": token, "algs": spec["algs"], "keys": spec["keys"], "src": "set", "mode": mode,
              "sender": spec.get("sender"), "pids": pids}
        if fam == "jws" and fser in ("c7797", "j7797"):
            cs["payload_hex"] = payload.hex()
            cs["give_payload"] = give_payload
        if rng.random() < 0.12 and len(spec["keys"]) > 1:
            cs["keys"] = [spec["keys"][fi]] if rng.random() < 0.6 else [rng.choice(spec["keys"])]   # single-key set
        cs["orders"] = gen_orders(rng, len(cs["keys"]))
        cs["reg"] = gen_reg(rng, fam)
        if cs["reg"].get("strict") is False and fam == "jws" and isinstance(token, dict) and rng.random() < 0.5:
            # a member no registry knows, in an unprotected header (accepted only without strict_check_header)
            tgt = token["signatures"][0] if "signatures" in token else token
            tgt.setdefault("header", {})["xc14"] = "x"
        crec = consume(h, cs)
        for c in guess_cases(h, crec):
            add(c, ("guess", "%s %s consume forged" % (fam, fser), cs, pool_ids(cs)))
        add(entry_case(h, crec, pids), ("consume-%s-%s" % (fam, fser), "forged kid=%r present=%s" % (kid, present), cs, pool_ids(cs)))
        if spec.get("sender") and fam == "jwe":
            continue        # the sender key adds a second lookup; left to the model
        verdicts = expected_consume(h, crec["keys"], crec["pre"], pids)
        judge_consume(h, crec, verdicts, report, "forged token (made with key kid=%r, header kid %s)" % (
            fkey.kid, repr(kid) if present else "absent"))


# ----------------------------------------------------------------------------
# replay
# ----------------------------------------------------------------------------
def replay(path):
    import random
    r = json.load(open(path))["replay"]
    print("replay kind:", r.get("kind"))
    if "spec" not in r or not r.get("pool"):
        print(json.dumps(r, indent=1, default=str)[:4000])
        print("correspondence / proof failure: see the Coq case above")
        return 1
    spec = r["spec"]
    h = H(random.Random(0), plan=spec.get("plan"))
    idx = sorted(int(i) for i in r["pool"])
    remap = {old: new for new, old in enumerate(idx)}
    h.load_pool([r["pool"][str(i)] for i in idx])
    spec = json.loads(json.dumps(spec))
    spec["keys"] = [[remap[s[0]], s[1]] for s in spec["keys"]]
    if spec.get("sender"):
        spec["sender"]["keys"] = [[remap[s[0]], s[1]] for s in spec["sender"]["keys"]]
    found = []

    def report(sig, desc, sp, extra=None):
        found.append((sig, desc))
        print("VIOLATION (replayed):", sig, desc)
    with Patches(h):
        if r.get("drafts"):
            from joserfc.drafts.jwe_ecdh_1pu import register_ecdh_1pu
            register_ecdh_1pu()
            h.drafts = True
        if "gks" in spec:
            generate_key_set_check(h, report, None, spec, fixed=spec["gks"])
            return 1 if found else 0
        if "token" in spec:
            crec = consume(h, spec)
            print("consume outcome:", crec["out"])
            print("set kids:", [k.kid for k in crec["keys"]], "token headers:", crec["pre"])
            if "pids" not in spec or (spec.get("sender") and r.get("kind") != "consume-named-key-rejected"):
                return 1
            pids = [remap[x] for x in spec["pids"]]
            judge_consume(h, crec, expected_consume(h, crec["keys"], crec["pre"], pids), report, "replayed token")
            return 1 if found else 0
        from joserfc.jwk import KeySet
        from joserfc.errors import InvalidKeyIdError
        kset = KeySet(h.build_keys(spec))
        keys = kset.keys
        print("set kids:", [(k.kid, k.key_type) for k in keys])
        if r.get("kind") in ("keyset-kid-invariant", "auto-kid-not-thumbprint"):
            fresh = h.build_keys(spec)
            before = [None] * len(fresh) if spec.get("shared") is not None else [k.dict_value.get("kid") for k in fresh]
            KeySet(fresh)
            check_auto_kids(h, fresh, before, spec, report, "KeySet(...)")
            return 1 if found else 0
        if r.get("kind") in ("shared-parameters-duplicate-kids", "caller-parameters-changed") and "gks" not in spec:
            fresh = h.build_keys(spec)
            KeySet(fresh)
            kids_now = [k.kid for k in fresh]
            print("kids:", kids_now, "parameters:", h.live)
            return 1 if (len(set(kids_now)) != len(kids_now) or any(a != b for a, b in h.live)) else 0
        if "kid" in r or "alg" in r:
            bad = False
            if "kid" in r:
                kid = r["kid"]
                out = call(kset.get_by_kid, kid)
                print("get_by_kid(%r) ->" % (kid,), out)
                named = [k for k in keys if isinstance(kid, str) and k.kid == kid]
                if kid is None and len(keys) == 1:
                    named = [keys[0]]
                bad = (out[0] != "ok" or out[1] is not named[0]) if named else (out[0] == "ok" or not isinstance(out[1], InvalidKeyIdError))
            if "alg" in r:
                out = call(kset.pick_random_key, r["alg"])
                print("pick_random_key(%r) ->" % (r["alg"],), out)
                et = expected_types(r["alg"]) if isinstance(r["alg"], str) else None
                if et is not None and out[0] == "ok":
                    bad = bad or (out[1] is None and any(k.key_type in et for k in keys)) or \
                        (out[1] is not None and out[1].key_type not in et)
            return 1 if bad else 0
        rec = produce(h, spec)
        print("produce outcome:", rec["out"])
        if spec["src"] == "set":
            independent_public_set(h, rec, report)
        if rec["out"][0] == "ok":
            check_produced(h, rec, report)
            used = [u for u in check_produced(h, rec, lambda *a, **k: None)]
            if all(u is not None for u in used):
                for mode in ("direct", "call"):
                    cs = {"fam": spec["fam"], "ser": spec["ser"], "token": rec["out"][1], "algs": spec["algs"],
                          "keys": spec["keys"], "src": "set", "mode": mode, "sender": spec.get("sender")}
                    crec = consume(h, cs)
                    judge_consume(h, crec, expected_consume(h, crec["keys"], crec["pre"], used), report, "token produced by the library")
                if spec["src"] == "set" and spec.get("mode") != "bykid":
                    public_roundtrip(h, rec, used, rec["out"][1], report, lambda *a: None)
    return 1 if found else 0
