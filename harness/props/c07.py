"""C07 — JWS octets on the wire are those of RFC 7515/7518/8037/8812/7797.
Independent reference implementation: props/c07_ref.py (written from the RFC
texts; own base64url, own JSON spellings, pyca/hashlib/hmac primitives used
directly, strict PSS salt length and ECDSA R||S length; does not import
joserfc; given only the exported JWK).  Both directions:
 - tokens joserfc signs (all algorithms x compact / flattened / general x b64
   option) verify under the reference given key.as_dict(private=False);
 - tokens the reference signs, with the protected header spelled in several
   JSON spellings (whitespace, member order, \\uXXXX and \\/ escapes, raw
   UTF-8), verify in joserfc and yield the same payload and header;
 - published RFC examples verify in joserfc;
 - the reference-signed tokens are also verified by the Coq model (model/Jws.v)
   with the oracles instantiated by the recorded tables (vm_compute)."""
import copy, json
import lib
from lib import c_hex, c_str, c_bool, c_list, c_opt, c_pv
import props.jws_common as J
from props.jws_common import call
import props.c07_ref as REF
from props.c01 import PAYLOADS, detect_fixed


def run(ctx):
    from joserfc import jws
    from joserfc import rfc7797 as r97
    from joserfc.jwk import JWKRegistry, KeySet
    ok, log = ctx.prove(extra_targets=["model/C07Cases.vo"])
    rng = ctx.rng
    K = J.keys()
    fixed, _ = detect_fixed()
    cases = []
    dist = {}

    def note(k):
        dist[k] = dist.get(k, 0) + 1

    def jwks(kn):
        k = K[kn]
        prv = k.as_dict(private=True)
        pub = prv if k.key_type == "oct" else k.as_dict(private=False)
        return prv, pub

    headers_extra = [{}, {"typ": "JWT"}, {"kid": "k/1 é中\U0001F600", "cty": "a/b"}, {"typ": "x", "kid": "q\"uo\\te"}]
    with J.Recorder() as rec:
        for alg in J.ALL_ALGS:
            for kn in J.ALG_KEYS[alg][:2 if ctx.quick else 4]:
                k = K[kn]
                pub_key = J.pubkey_of(k)
                prv_jwk, pub_jwk = jwks(kn)
                pls = PAYLOADS if not ctx.quick else rng.sample(PAYLOADS, 3)
                for pl in pls:
                    # ---------- joserfc signs, the reference verifies
                    for b64 in (None, False):
                        h = dict({"alg": alg}, **rng.choice(headers_extra))
                        if b64 is False:
                            h.update({"b64": False, "crit": ["b64"]})
                        ctx.note_case(("j2r", alg, kn, pl, b64))
                        note("joserfc->reference:compact:b64=%s" % b64)
                        r = call(r97.serialize_compact if b64 is False else jws.serialize_compact, dict(h), pl, k, [alg])
                        rec.take()
                        rp = {"dir": "joserfc->reference", "alg": alg, "key": kn, "payload_hex": pl.hex(), "header": h}
                        if r[0] != "ok":
                            continue            # (non-UTF-8 payload with b64=false: reported by C03)
                        tok = r[1]
                        det = pl if (b64 is False and tok.split(".")[1] == "" and pl) else None
                        v = call(REF.verify_compact, tok, pub_jwk, det)
                        if v[0] != "ok" or v[1][1] != pl or v[1][0] != h:
                            ctx.violation({"kind": "reference-rejects-joserfc-token", "alg": alg, "ser": "compact"},
                                          "a compact JWS signed by joserfc (%s, b64=%s) does not verify under the RFC reference: %r" % (alg, b64, v[1]),
                                          dict(rp, token=tok))
                        # the signing input on the wire is the RFC formula over the octets joserfc emitted
                        hs, ps, ss = tok.split(".")
                        si = REF.signing_input(REF.b64u_dec(hs), pl, b64 is not False)
                        if not REF.raw_verify(alg, pub_jwk, si, REF.b64u_dec(ss)):
                            ctx.violation({"kind": "signing-input", "alg": alg}, "signature of a joserfc token is not over ASCII(B64(header).B64(payload))", dict(rp, token=tok))
                    for form in ("flat", "general"):
                        m = {"protected": {"alg": alg}, "header": {"kid": kn}}
                        note("joserfc->reference:%s" % form)
                        r = call(jws.serialize_json, m if form == "flat" else [m, copy.deepcopy(m)], pl, k, [alg])
                        rec.take()
                        if r[0] != "ok":
                            ctx.violation({"kind": "sign-failed"}, "serialize_json failed: %r" % (r[1],), {"alg": alg})
                            continue
                        v = call(REF.verify_json, r[1], lambda i, hdr: pub_jwk)
                        if v[0] != "ok" or v[1][1] != pl:
                            ctx.violation({"kind": "reference-rejects-joserfc-token", "alg": alg, "ser": form},
                                          "a %s JSON JWS signed by joserfc (%s) does not verify under the RFC reference: %r" % (form, alg, v[1]),
                                          {"alg": alg, "key": kn, "value": r[1]})
                    # ---------- the reference signs (every header spelling), joserfc verifies
                    h = dict({"alg": alg}, **rng.choice(headers_extra))
                    spellings = REF.header_spellings(h, rng)
                    for si_, octets in enumerate(spellings):
                        ctx.note_case(("r2j", alg, kn, pl, octets))
                        note("reference->joserfc:compact")
                        tok = REF.sign_compact(alg, prv_jwk, octets, pl).encode()
                        rec.take()
                        r = call(jws.deserialize_compact, tok, pub_key, [alg])
                        rows, _ = rec.take()
                        if r[0] != "ok" or r[1].payload != pl or r[1].protected != h:
                            ctx.violation({"kind": "joserfc-rejects-reference-token", "alg": alg, "ser": "compact"},
                                          "a compact JWS signed by the RFC reference (%s, header spelling %r) is not verified by joserfc: %r" % (
                                              alg, octets[:60], r[1] if r[0] != "ok" else (r[1].protected, r[1].payload)),
                                          {"dir": "reference->joserfc", "token": tok.decode(), "key": pub_jwk, "alg": alg})
                        cases.append(("JDesCompact %s %s %s %s %s" % (J.c_table(rows), c_hex(tok), J.c_keysrc(pub_key), J.c_algs([alg]), J.c_compact_result(r)),
                                      {"fn": "deserialize_compact", "what": "%s:spelling%d" % (alg, si_), "token": tok.decode()[:200]}))
                    # flattened / general from the reference, protected header in a non-canonical spelling
                    octets = spellings[rng.randrange(len(spellings))]
                    for form in ("flat", "general"):
                        note("reference->joserfc:%s" % form)
                        if form == "flat":
                            val = REF.sign_flattened(alg, prv_jwk, octets, {"x5t": "abc"} if "x5t" not in h else None, pl)
                        else:
                            val = REF.sign_general([(alg, prv_jwk, octets, None), (alg, prv_jwk, spellings[0], None)], pl)
                        rec.take()
                        r = call(jws.deserialize_json, copy.deepcopy(val), pub_key, [alg])
                        rows, _ = rec.take()
                        if r[0] != "ok" or r[1].payload != pl or any(mm.protected != h for mm in r[1].members):
                            ctx.violation({"kind": "joserfc-rejects-reference-token", "alg": alg, "ser": form},
                                          "a %s JSON JWS signed by the RFC reference (%s) is not verified by joserfc: %r" % (form, alg, r[1]),
                                          {"dir": "reference->joserfc", "value": val, "key": pub_jwk, "alg": alg})
                        cases.append(("JDesJson %s %s %s %s %s" % (J.c_table(rows), J.c_jval(val), J.c_keysrc(pub_key), J.c_algs([alg]), J.c_json_result(r)),
                                      {"fn": "deserialize_json", "what": "%s:%s" % (alg, form)}))
                    # rfc7797 from the reference: attached when URL-safe, detached otherwise
                    import re
                    safe = bool(re.fullmatch(rb"[A-Za-z0-9\-_~]+", pl))
                    h97 = {"alg": alg, "b64": False, "crit": ["b64"]}
                    tok = REF.sign_compact(alg, prv_jwk, REF.header_spellings(h97, rng)[1], pl, b64=False, detached=not safe).encode()
                    note("reference->joserfc:compact:b64=False")
                    rec.take()
                    r = call(r97.deserialize_compact, tok, pub_key, None if safe else pl, [alg])
                    rows, _ = rec.take()
                    if pl and (r[0] != "ok" or r[1].payload != pl):
                        ctx.violation({"kind": "joserfc-rejects-reference-token", "alg": alg, "ser": "compact-b64false"},
                                      "an RFC 7797 JWS signed by the reference (%s, detached=%s) is not verified by joserfc: %r" % (alg, not safe, r[1]),
                                      {"dir": "reference->joserfc", "token": tok.decode("latin1"), "key": pub_jwk, "alg": alg})
                    cases.append(("JDesCompact97 %s %s %s %s %s %s" % (J.c_table(rows), c_hex(tok), J.c_keysrc(pub_key), c_opt(None if safe else pl, c_hex),
                                                                      J.c_algs([alg]), J.c_compact_result(r)),
                                  {"fn": "deserialize_compact97", "what": alg}))
        # ---------- reference -> joserfc, JSON: "alg" placement (protected / unprotected only) x b64
        for alg in (J.ALL_ALGS if not ctx.quick else ["HS256", "ES256", "RS256", "EdDSA"]):
            kn = J.ALG_KEYS[alg][0]
            prv_jwk, pub_jwk = jwks(kn)
            pub_key = J.pubkey_of(K[kn])
            for b64 in (None, True, False):
                b64h = {} if b64 is None else {"b64": b64, "crit": ["b64"]}
                shapes = [("alg-protected", dict({"alg": alg}, **b64h), {"kid": kn}),
                          ("alg-protected-no-unprotected", dict({"alg": alg, "typ": "JWT"}, **b64h), None),
                          ("alg-unprotected", dict({"typ": "JWT"}, **b64h), {"alg": alg, "kid": kn})]
                if b64 is None:
                    shapes.append(("alg-unprotected-no-protected", None, {"alg": alg}))
                for sname, prot, unprot in shapes:
                    pl = rng.choice([b"placement", b"a.b", "h\u00e9".encode()])
                    octets = None if prot is None else REF.header_spellings(prot, rng)[rng.randrange(3)]
                    val = REF.sign_flattened(alg, prv_jwk, octets, unprot, pl, b64=(b64 is not False))
                    merged = dict(prot or {})
                    merged.update(unprot or {})
                    entries = [("rfc7797.deserialize_json", r97.deserialize_json)] + ([("jws.deserialize_json", jws.deserialize_json)] if b64 is None else [])
                    for ename, fn in entries:
                        ctx.note_case(("alg-placement", alg, b64, sname, ename, pl))
                        note("alg-placement:%s:b64=%s" % (sname, b64))
                        rec.take()
                        r = call(fn, copy.deepcopy(val), pub_key, [alg])
                        rows, _ = rec.take()
                        if ename.startswith("rfc7797"):
                            cases.append(("JDesJson97 %s %s %s %s %s %s" % (J.c_table(rows), c_bool(fixed), J.c_jval(val), J.c_keysrc(pub_key), J.c_algs([alg]), J.c_json_result(r)),
                                          {"fn": "deserialize_json97", "what": "algplace-%s:%s" % (alg, sname)}))
                        if r[0] != "ok" or r[1].payload != pl or r[1].members[0].headers() != merged or (r[1].members[0].protected or None) != (prot or None):
                            ctx.violation({"kind": "joserfc-rejects-reference-token", "alg": alg, "ser": "flat:" + sname, "b64": b64},
                                          "%s of a reference-signed flattened JWS (%s, alg %s, b64=%s): %r" % (
                                              ename, alg, sname, b64, r[1] if r[0] != "ok" else (r[1].members[0].headers(), r[1].payload)),
                                          {"dir": "reference->joserfc", "value": val, "key": pub_jwk, "alg": alg})
                    if b64 is None:
                        gen = REF.sign_general([(alg, prv_jwk, octets, unprot), (alg, prv_jwk, octets, unprot)], pl)
                        rg_ = call(jws.deserialize_json, copy.deepcopy(gen), pub_key, [alg])
                        rec.take()
                        if rg_[0] != "ok" or rg_[1].payload != pl or any(mm.headers() != merged for mm in rg_[1].members):
                            ctx.violation({"kind": "joserfc-rejects-reference-token", "alg": alg, "ser": "general:" + sname},
                                          "jws.deserialize_json of a reference-signed general JWS (alg %s): %r" % (sname, rg_[1]), {"dir": "reference->joserfc", "value": gen, "alg": alg})

        # ---------- PS* parameters on signatures made with pyca directly: joserfc and the reference must agree
        from cryptography.hazmat.primitives.asymmetric import padding as _pad
        from cryptography.hazmat.primitives import hashes as _hs0
        HC0 = {"sha256": _hs0.SHA256, "sha384": _hs0.SHA384, "sha512": _hs0.SHA512}
        rsa_prv = K["rsa"].private_key
        rsa_pubjwk = K["rsa"].as_dict(private=False)
        rsa_pubkey = J.pubkey_of(K["rsa"])
        for name, hn in (("PS256", "sha256"), ("PS384", "sha384"), ("PS512", "sha512")):
            hl = HC0[hn].digest_size
            for salt in (0, 8, hl - 1, hl, hl + 1, "max"):
                for mgf in HC0:
                    if ctx.quick and mgf != hn and salt not in (hl, 0):
                        continue
                    si = (REF.b64u_enc(('{"alg":"%s"}' % name).encode()) + "." + REF.b64u_enc(b"pss")).encode()
                    sl = _pad.PSS.MAX_LENGTH if salt == "max" else salt
                    sig = rsa_prv.sign(si, _pad.PSS(mgf=_pad.MGF1(HC0[mgf]()), salt_length=sl), HC0[hn]())
                    tok = si.decode() + "." + REF.b64u_enc(sig)
                    ctx.note_case(("pss-matrix", name, salt, mgf))
                    note("pss-matrix:%s" % ("rfc" if (salt == hl and mgf == hn) else "other"))
                    ref = call(REF.verify_compact, tok, rsa_pubjwk)
                    r = call(jws.deserialize_compact, tok, rsa_pubkey, [name])
                    rec.take()
                    if (ref[0] == "ok") != (r[0] == "ok") or (ref[0] == "ok") != (salt == hl and mgf == hn):
                        ctx.violation({"kind": "pss-params", "alg": name, "salt": str(salt), "mgf": mgf},
                                      "%s signature with salt length %s and MGF1-%s: reference %s, joserfc %s" % (
                                          name, salt, mgf, "accepts" if ref[0] == "ok" else "rejects", "accepts" if r[0] == "ok" else "rejects (%r)" % (r[1],)),
                                      {"dir": "reference->joserfc", "token": tok, "key": rsa_pubjwk, "alg": name})
        # ---------- "yield the same payload and HEADER": verifier key forms x tokens with / without kid
        from joserfc.errors import InvalidKeyIdError
        for alg, kn in (("HS256", "oct32"), ("ES256", "p256"), ("EdDSA", "ed25519"), ("RS256", "rsa"), ("PS256", "rsa")):
            prv_jwk, pub_jwk = jwks(kn)
            pub_key = J.pubkey_of(K[kn])
            other = J.pubkey_of(K["p384"] if kn != "p384" else K["p256"])
            same_t = J.other_key_same_type(kn)
            for with_kid in (False, True):
                h = {"alg": alg, "typ": "JWT"}
                if with_kid:
                    h["kid"] = kn
                sp = REF.header_spellings(h, rng)
                tok = REF.sign_compact(alg, prv_jwk, sp[rng.randrange(len(sp))], b"header-equality").encode()
                val = REF.sign_flattened(alg, prv_jwk, sp[0], None, b"header-equality")
                forms = [("key", pub_key, "ok"), ("set1", KeySet([pub_key]), "ok"),
                         ("set-several", KeySet([other, pub_key] + ([J.pubkey_of(K[same_t])] if same_t else [])), "ok" if with_kid else "nokid"),
                         ("callable", (lambda obj, _p=pub_key: _p), "ok"), ("callable-set1", (lambda obj, _p=KeySet([pub_key]): _p), "ok")]
                for fname, vkey, expect in forms:
                    ctx.note_case(("hdr-eq", alg, with_kid, fname))
                    note("header-equality:%s" % fname)
                    rec.take()
                    r = call(jws.deserialize_compact, tok, vkey, [alg])
                    rows, _ = rec.take()
                    vobj = vkey(None) if callable(vkey) else vkey
                    cases.append(("JDesCompact %s %s %s %s %s" % (J.c_table(rows), c_hex(tok), J.c_keysrc(vobj), J.c_algs([alg]), J.c_compact_result(r)),
                                  {"fn": "deserialize_compact", "what": "hdreq-%s:%s:%s" % (alg, fname, with_kid)}))
                    rj = call(jws.deserialize_json, copy.deepcopy(val), vkey, [alg])
                    rec.take()
                    rp = {"dir": "reference->joserfc", "token": tok.decode(), "key": pub_jwk, "alg": alg, "form": fname}
                    if expect == "ok":
                        if r[0] != "ok" or r[1].payload != b"header-equality" or r[1].protected != h:
                            ctx.violation({"kind": "header-equality", "form": fname, "kid": with_kid},
                                          "verifying a reference-signed token (%s, kid %s) with the key given as %s: %r — the header returned must EQUAL the signed header %r" % (
                                              alg, "present" if with_kid else "absent", fname, r[1] if r[0] != "ok" else r[1].protected, h), rp)
                        if rj[0] != "ok" or rj[1].members[0].protected != h or rj[1].members[0].headers() != h:
                            ctx.violation({"kind": "header-equality", "form": fname, "kid": with_kid, "ser": "flat"},
                                          "flattened JSON: %r" % (rj[1] if rj[0] != "ok" else rj[1].members[0].headers(),), rp)
                    else:
                        if r[0] != "err" or not isinstance(r[1], InvalidKeyIdError) or rj[0] != "err" or not isinstance(rj[1], InvalidKeyIdError):
                            ctx.violation({"kind": "header-equality", "form": fname, "kid": with_kid},
                                          "a kid-less token against a key set with several keys must be the deterministic InvalidKeyIdError, got %r / %r" % (
                                              r[1] if r[0] != "ok" else r[1].protected, rj[1]), rp)

        # ---------- reference-signed tokens over HISTORIES: batches (extract all, validate all, both
        # orders) and key callables that verify OTHER reference-signed tokens before returning the key;
        # each reference token must verify to its own payload (compact and rfc7797 compact)
        pool = []
        for alg, kn in (("HS256", "oct32"), ("ES256", "p256"), ("EdDSA", "ed25519"), ("RS256", "rsa"), ("HS384", "oct64"), ("ES384", "p384")):
            prv_jwk, pub_jwk = jwks(kn)
            pub_key = J.pubkey_of(K[kn])
            for i_, pl in enumerate((b"ref-payload-" + alg.encode(), b"second-" + alg.encode())):
                h = {"alg": alg, "kid": "%s-%d" % (kn, i_)}
                sp = REF.header_spellings(h, rng)
                tok = REF.sign_compact(alg, prv_jwk, sp[(i_ * 3 + 1) % len(sp)], pl)
                h97 = {"alg": alg, "b64": False, "crit": ["b64"]}
                tok97 = REF.sign_compact(alg, prv_jwk, REF.header_spellings(h97, rng)[0], b"u97_" + alg.encode() + b"%d" % i_, b64=False)
                val = REF.sign_flattened(alg, prv_jwk, sp[0], None, pl)
                pool.append({"tok": tok, "tok97": tok97, "val": val, "alg": alg, "key": pub_key, "pl": pl, "pl97": b"u97_" + alg.encode() + b"%d" % i_, "h": h})
        rec.take()
        for order in ("forward", "reverse", "shuffled"):
            batch = list(pool)
            if order == "shuffled":
                rng.shuffle(batch)
            objs = [call(jws.extract_compact, t["tok"].encode()) for t in batch]
            seq = list(range(len(batch)))
            if order == "reverse":
                seq.reverse()
            for i_ in seq:
                t, o = batch[i_], objs[i_]
                note("history:batch-%s" % order)
                ctx.note_case(("batch", order, t["tok"]))
                v = call(jws.validate_compact, o[1], t["key"], [t["alg"]]) if o[0] == "ok" else o
                rec.take()
                segs_ok = o[0] == "ok" and [o[1].segments.get(x) for x in ("header", "payload", "signature")] == t["tok"].encode().split(b".")
                if v != ("ok", True) or o[1].payload != t["pl"] or o[1].protected != t["h"] or not segs_ok:
                    ctx.violation({"kind": "history-batch", "order": order},
                                  "extract_compact on a batch of reference-signed tokens, then validate_compact (%s): %r for token %d (payload %r, own segments intact: %s)" % (
                                      order, v[1], i_, getattr(o[1], "payload", None), segs_ok), {"dir": "reference->joserfc", "token": t["tok"], "alg": t["alg"]})
        for ia, A in enumerate(pool):
            for ib, B in enumerate(pool):
                if ia == ib or (ctx.quick and (ia * 5 + ib) % 3):
                    continue
                inner = {}

                def keyf(obj, A=A, B=B, inner=inner):
                    inner["c"] = call(jws.deserialize_compact, B["tok"], B["key"], [B["alg"]])
                    inner["u"] = call(r97.deserialize_compact, B["tok97"], B["key"], None, [B["alg"]])
                    inner["j"] = call(jws.deserialize_json, copy.deepcopy(B["val"]), B["key"], [B["alg"]])
                    return A["key"]
                note("history:nested-callable")
                ctx.note_case(("nested", A["tok"], B["tok"]))
                rp = {"dir": "reference->joserfc", "token": A["tok"], "other": B["tok"], "alg": A["alg"]}
                rec.take()
                r = call(jws.deserialize_compact, A["tok"], keyf, [A["alg"]])
                rows, _ = rec.take()
                cases.append(("JDesCompact %s %s %s %s %s" % (J.c_table(rows), c_hex(A["tok"].encode()), J.c_keysrc(A["key"]), J.c_algs([A["alg"]]), J.c_compact_result(r)),
                              {"fn": "deserialize_compact", "what": "nested-%s" % A["alg"]}))
                if r[0] != "ok" or r[1].payload != A["pl"] or r[1].protected != A["h"]:
                    ctx.violation({"kind": "history-nested", "ser": "compact"}, "a reference-signed token verified through a key callable that verifies OTHER tokens: %r (expected payload %r)" % (
                        r[1] if r[0] != "ok" else r[1].payload, A["pl"]), rp)
                r7 = call(r97.deserialize_compact, A["tok97"], keyf, None, [A["alg"]])
                rec.take()
                if r7[0] != "ok" or r7[1].payload != A["pl97"]:
                    ctx.violation({"kind": "history-nested", "ser": "compact-b64false"}, "an RFC 7797 reference token verified through a key callable that verifies OTHER tokens: %r" % (
                        r7[1] if r7[0] != "ok" else r7[1].payload,), rp)
                rj = call(jws.deserialize_json, copy.deepcopy(A["val"]), keyf, [A["alg"]])
                rec.take()
                if rj[0] != "ok" or rj[1].payload != A["pl"]:
                    ctx.violation({"kind": "history-nested", "ser": "flat"}, "a reference-signed flattened JWS verified through such a callable: %r" % (rj[1],), rp)
                for nm in ("c", "u", "j"):
                    want = B["pl97"] if nm == "u" else B["pl"]
                    if inner.get(nm, ("err", None))[0] != "ok" or inner[nm][1].payload != want:
                        ctx.violation({"kind": "history-nested-inner"}, "the nested verification (%s) of the other token failed: %r" % (nm, inner.get(nm)), rp)

        # ---------- the emitted segments are exactly BASE64URL(UTF8(JSON(the protected header given)))
        # every producing entry point x (protected only / unprotected only / both / kid in either) x b64
        def canon(hd):
            return REF.b64u_enc(REF._ser(hd).encode("utf-8"))

        for alg in (J.ALL_ALGS if not ctx.quick else ["HS256", "ES256", "RS256", "EdDSA", "PS384", "ES512"]):
            kn = J.ALG_KEYS[alg][0]
            k = K[kn]
            prv_jwk, pub_jwk = jwks(kn)
            pub_key = J.pubkey_of(k)
            for b64 in (None, True, False):
                base = {"alg": alg}
                if b64 is not None:
                    base.update({"b64": b64, "crit": ["b64"]})
                members = [("protected-only", {"protected": dict(base)}),
                           ("both", {"protected": dict(base), "header": {"kid": kn, "cty": "a/b"}}),
                           ("both-kid-protected", {"protected": dict(base, kid=kn), "header": {"typ": "x"}}),
                           ("unprotected-only", {"header": dict(base, kid=kn)}),
                           ("empty-protected", {"protected": {}, "header": dict(base, kid=kn)}),
                           ("none-protected", {"protected": None, "header": dict(base)})]
                pl = rng.choice([b"hello", b"a.b", "h\u00e9llo".encode(), b"urlsafe_9"])
                # compact
                note("emit:compact:b64=%s" % b64)
                ctx.note_case(("emit-compact", alg, b64, pl))
                hd = dict(base, kid=kn)
                r = call(r97.serialize_compact if b64 is not None else jws.serialize_compact, dict(hd), pl, k, [alg])
                rec.take()
                if r[0] != "ok":
                    ctx.violation({"kind": "sign-failed"}, "serialize_compact failed: %r" % (r[1],), {"alg": alg, "b64": b64})
                else:
                    hs, ps, ss = r[1].split(".")
                    want_p = REF.b64u_enc(pl) if b64 is not False else (pl.decode("utf-8") if ps else "")
                    if hs != canon(hd) or ps != want_p:
                        ctx.violation({"kind": "emitted-segment", "ser": "compact", "b64": b64},
                                      "compact %s: header segment %r (expected %r), payload segment %r (expected %r)" % (alg, hs, canon(hd), ps, want_p),
                                      {"alg": alg, "b64": b64, "token": r[1]})
                for mname, m in members:
                    for entry in (("flat", "general") if b64 is None else ("flat",)):
                        note("emit:%s:%s:b64=%s" % (entry, mname, b64))
                        ctx.note_case(("emit", alg, b64, mname, entry, pl))
                        marg = copy.deepcopy(m) if entry == "flat" else [copy.deepcopy(m), copy.deepcopy(m)]
                        rec.take()
                        r = call(r97.serialize_json if b64 is not None else jws.serialize_json, marg, pl, k, [alg])
                        rows, _ = rec.take()
                        rp = {"alg": alg, "b64": b64, "member": m, "entry": entry, "payload_hex": pl.hex()}
                        if b64 is not None and entry == "flat":
                            cases.append(("JSerJson97 %s %s %s %s %s %s %s" % (J.c_table(rows), c_bool(fixed), J.c_smember(m), c_hex(pl), J.c_keysrc(k),
                                                                              J.c_algs([alg]), J.c_res(r, J.c_jval)),
                                          {"fn": "serialize_json97", "what": "emit-%s:%s" % (alg, mname)}))
                        if r[0] != "ok":
                            ctx.violation({"kind": "sign-failed"}, "serialize_json failed: %r" % (r[1],), rp)
                            continue
                        out = r[1]
                        for sg in (out["signatures"] if entry == "general" else [out]):
                            prot = m.get("protected")
                            if (sg.get("protected") != (canon(prot) if prot else None)) or (sg.get("header") != m.get("header")):
                                ctx.violation({"kind": "emitted-segment", "ser": entry, "b64": b64},
                                              "%s JSON (%s, %s): emitted protected %r / header %r, expected BASE64URL(JSON(protected header given)) = %r / %r" % (
                                                  entry, alg, mname, sg.get("protected"), sg.get("header"), canon(prot) if prot else None, m.get("header")), dict(rp, value=out))
                        want_p = REF.b64u_enc(pl) if b64 is not False else pl.decode("utf-8")
                        if out.get("payload") != want_p:
                            ctx.violation({"kind": "emitted-segment", "ser": entry, "b64": b64}, "payload member %r, expected %r" % (out.get("payload"), want_p), dict(rp, value=out))
                        # the reference (RFC 7515 7.2.1: protected and unprotected names disjoint) verifies it
                        if mname in ("unprotected-only", "empty-protected", "none-protected") and b64 is not None:
                            continue    # b64 outside any protected header: the recorded finding C01-unprotected-b64-no-protected-header
                        v = call(REF.verify_json, out, lambda i, hdr: pub_jwk)
                        if v[0] != "ok" or v[1][1] != pl:
                            ctx.violation({"kind": "reference-rejects-joserfc-token", "alg": alg, "ser": entry + ":" + mname},
                                          "a %s JSON JWS signed by joserfc (%s, %s, b64=%s) does not verify under the RFC reference: %r" % (entry, alg, mname, b64, v[1]), dict(rp, value=out))
        # ---------- ES* name x EC curve x hash, signed with pyca directly: joserfc and the reference must agree
        from cryptography.hazmat.primitives.asymmetric import ec as _ec
        from cryptography.hazmat.primitives import hashes as _hs
        from cryptography.hazmat.primitives.asymmetric.utils import decode_dss_signature as _dds
        ES = {"ES256": ("P-256", "sha256"), "ES384": ("P-384", "sha384"), "ES512": ("P-521", "sha512"), "ES256K": ("secp256k1", "sha256")}
        for name, (crv, hname) in ES.items():
            for kn in ("p256", "p384", "p521", "k256"):
                k = K[kn]
                pub_key = J.pubkey_of(k)
                pub_jwk = k.as_dict(private=False)
                L = (k.curve_key_size + 7) // 8
                for hn, hcls in (("sha256", _hs.SHA256), ("sha384", _hs.SHA384), ("sha512", _hs.SHA512)):
                    si = (REF.b64u_enc(('{"alg":"%s"}' % name).encode()) + "." + REF.b64u_enc(b"matrix")).encode()
                    r_, s_ = _dds(k.private_key.sign(si, _ec.ECDSA(hcls())))
                    tok = si.decode() + "." + REF.b64u_enc(r_.to_bytes(L, "big") + s_.to_bytes(L, "big"))
                    ctx.note_case(("ec-matrix", name, kn, hn))
                    note("ec-matrix:%s" % ("match" if (k.curve_name == crv and hn == hname) else "mismatch"))
                    ref = call(REF.verify_compact, tok, pub_jwk)
                    rec.take()
                    r = call(jws.deserialize_compact, tok, pub_key, [name])
                    rows, _ = rec.take()
                    if (ref[0] == "ok") != (r[0] == "ok") or (ref[0] == "ok") != (k.curve_name == crv and hn == hname):
                        ctx.violation({"kind": "ec-alg-curve", "alg": name, "curve": k.curve_name, "hash": hn},
                                      "header says %s, key on %s, signature made with %s: reference %s, joserfc %s (%r)" % (
                                          name, k.curve_name, hn, "accepts" if ref[0] == "ok" else "rejects", "accepts" if r[0] == "ok" else "rejects", r[1]),
                                      {"dir": "reference->joserfc", "token": tok, "key": pub_jwk, "alg": name})
                    cases.append(("JDesCompact %s %s %s %s %s" % (J.c_table(rows), c_hex(tok.encode()), J.c_keysrc(pub_key), J.c_algs([name]), J.c_compact_result(r)),
                                  {"fn": "deserialize_compact", "what": "ecmatrix-%s:%s:%s" % (name, kn, hn)}))
        # ---------- negative controls of the reference itself (strictness) against joserfc-made signatures
        for alg, kn in (("PS256", "rsa"), ("ES256", "p256"), ("ES512", "p521")):
            prv_jwk, pub_jwk = jwks(kn)
            tok = jws.serialize_compact({"alg": alg}, b"x", K[kn], [alg])
            hs, ps, ss = tok.split(".")
            sig = REF.b64u_dec(ss)
            for bad in (sig[:-1], sig + b"\x00", b"\x00" + sig):
                if REF.raw_verify(alg, pub_jwk, (hs + "." + ps).encode(), bad):
                    ctx.violation({"kind": "reference-not-strict"}, "reference accepted a resized signature", {"alg": alg})
        # ---------- published RFC examples
        for v in REF.RFC_VECTORS:
            ctx.note_case(("rfc", v["name"]))
            note("rfc-vector")
            jwk = v["jwk"]
            key = KeySet([JWKRegistry.import_key(x) for x in jwk]) if isinstance(jwk, list) else JWKRegistry.import_key(jwk)
            algs = list(J.ALL_ALGS)
            if v["kind"] == "compact":
                tokc = v["token"]
                if v.get("detached_payload") is not None and tokc.split(".")[1] == "":
                    # RFC 7515 appendix F: the application re-inserts the detached payload
                    a_, _, c_ = tokc.split(".")
                    tokc = a_ + "." + REF.b64u_enc(v["detached_payload"]) + "." + c_
                r = call(jws.deserialize_compact, tokc, key, algs)
            elif v["kind"] == "compact-detached-b64false":
                r = call(r97.deserialize_compact, v["token"], key, v.get("detached_payload"), algs)
            else:
                tokv = copy.deepcopy(v["token"])
                if v.get("detached_payload") is not None and "payload" not in tokv:
                    tokv["payload"] = REF.b64u_enc(v["detached_payload"])
                if isinstance(jwk, list):
                    r = call(jws.deserialize_json, tokv, lambda obj, _ks=[JWKRegistry.import_key(x) for x in jwk]: next(
                        (kk for kk in _ks if kk.key_type == jws.JWSRegistry.algorithms[obj.headers()["alg"]].key_type), _ks[0]), algs)
                else:
                    f = r97.deserialize_json if "b64" in json.dumps(v["token"]) or True else jws.deserialize_json
                    r = call(f, tokv, key, algs)
            if r[0] != "ok" or r[1].payload != v["payload"]:
                ctx.violation({"kind": "rfc-vector", "name": v["name"]}, "published example %s does not verify in joserfc: %r" % (v["name"], r[1] if r[0] != "ok" else r[1].payload),
                              {"vector": v["name"]})

    groups = {}
    for t, m in cases:
        groups.setdefault(m["what"].split(":")[0] + m["fn"], []).append((t, m))
    budget = ctx.scale(500, 20000)
    per = max(2, budget // max(1, len(groups)))
    sel = []
    for g in sorted(groups):
        sel += groups[g] if len(groups[g]) <= per else rng.sample(groups[g], per)
    ctx.coverage["rule"] = ("joserfc-signed tokens verify under the independent RFC reference given only the public JWK and vice versa "
                            "(every header spelling), same payload and header; RFC example tokens verify; model verdict == implementation verdict")
    ctx.coverage["input_distribution"] = dict(sorted(dist.items()))
    ctx.coverage["rfc_vectors"] = [v["name"] for v in REF.RFC_VECTORS]
    for t, m in sel[:2]:
        ctx.sample({"coq_case": t[:300]})
    J.finish_correspondence(ctx, "C07", [t for t, m in sel], [m for t, m in sel], ok, log, "c07_check", "c07_show", "c07case")
    ctx.assumptions += [
        "the reference implementation props/c07_ref.py and the pyca / hashlib primitives it calls are trusted as the RFC oracle",
        "c07_alg_params compares the table extracted from the real algorithm objects (harness/extract_tables.py) with the Spec table written from the RFCs",
        "c07_verify_is_spec_partial: soundness direction only; completeness is covered by the reference->joserfc runs",
    ]
    if not ctx.quick:
        ctx.coqchk()


def replay(path):
    from joserfc import jws
    from joserfc.jwk import JWKRegistry
    d = json.load(open(path))
    r = d["replay"]
    print("replay:", json.dumps(r, default=str)[:1500])
    if r.get("dir") == "reference->joserfc" and "token" in r:
        key = JWKRegistry.import_key(r["key"])
        out = call(jws.deserialize_compact, r["token"], key, [r["alg"]])
        print(out)
        return 0 if out[0] == "ok" else 1
    if r.get("dir") == "joserfc->reference" and "token" in r:
        K = J.keys()
        k = K[r["key"]]
        pub = k.as_dict(private=True) if k.key_type == "oct" else k.as_dict(private=False)
        out = call(REF.verify_compact, r["token"], pub, bytes.fromhex(r["payload_hex"]) if r["token"].split(".")[1] == "" else None)
        print(out)
        return 0 if out[0] == "ok" else 1
    print("see the replay file")
    return 1
