"""./check driver: dispatches to harness/props/<id>.py"""
import sys, os, argparse, importlib, traceback
sys.path.insert(0, os.path.dirname(os.path.abspath(__file__)))
import lib


def main():
    ap = argparse.ArgumentParser()
    ap.add_argument("pid")
    ap.add_argument("--tier", default=os.environ.get("VERIF_TIER", "quick"), choices=["quick", "thorough"])
    ap.add_argument("--replay", default=None)
    a = ap.parse_args()
    seed = int(os.environ.get("VERIF_SEED", "0") or 0)
    mod = importlib.import_module("props.%s" % a.pid.lower())
    if a.replay:
        sys.exit(mod.replay(a.replay))
    ctx = lib.Ctx(a.pid, a.tier, seed)
    try:
        mod.run(ctx)
    except Exception:
        tb = traceback.format_exc()
        print(tb)
        ctx.violation({"kind": "harness-crash"}, "the check itself crashed: " + tb.splitlines()[-1],
                      {"no_failing_input_found": True, "broken": "harness", "traceback": tb})
    sys.exit(ctx.finish())


if __name__ == "__main__":
    main()
