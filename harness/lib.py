"""Shared machinery of the /verif checks: Coq build + evaluation of generated
case files, evidence writer, known-findings matching, violation reporting."""
from __future__ import annotations
import os, sys, json, time, hashlib, subprocess, tempfile, shutil, re, random, fcntl, glob

VERIF = os.path.dirname(os.path.dirname(os.path.abspath(__file__)))
COQ = os.environ.get("VERIF_COQ") or os.path.join(VERIF, "coq")   # VERIF_COQ: private copy for scratch runs
OUT = os.environ.get("VERIF_OUT") or VERIF                        # VERIF_OUT: where evidence/ and replays/ go
REPO = os.environ.get("VERIF_REPO") or "/repo"                     # VERIF_REPO: scratch worktree for self-tests
PY = "/venv/bin/python"
QFLAGS = ["-Q", os.path.join(COQ, "model"), "Model", "-Q", os.path.join(COQ, "gen"), "Gen",
          "-Q", os.path.join(COQ, "proofs"), "Proofs", "-Q", os.path.join(COQ, "props"), "Props"]
GATE_RE = re.compile(
    r"\b(Admitted|admit|Axiom|Axioms|Parameter|Parameters|Conjecture|Conjectures|Admit Obligations|"
    r"bypass_check|native_compute)\b|Unset Guard|Unset Positivity|Unset Universe|type-in-type|impredicative-set")


def child_env():
    env = dict(os.environ)
    env["PYTHONPATH"] = os.path.join(REPO, "src")
    env["PYTHONHASHSEED"] = "0"
    env["AUTHLIB_JOSERFC_VERIF"] = "1"
    return env


class BuildLock:
    def __enter__(self):
        self.f = open(os.path.join(COQ, ".build.lock"), "w")
        fcntl.flock(self.f, fcntl.LOCK_EX)
        return self

    def __exit__(self, *a):
        fcntl.flock(self.f, fcntl.LOCK_UN)
        self.f.close()


def run(cmd, timeout, cwd=None, env=None):
    t0 = time.time()
    try:
        p = subprocess.run(cmd, cwd=cwd, env=env, stdout=subprocess.PIPE, stderr=subprocess.STDOUT,
                           timeout=timeout, text=True, errors="replace")
        return p.returncode, p.stdout, time.time() - t0
    except subprocess.TimeoutExpired as e:
        out = e.stdout if isinstance(e.stdout, str) else (e.stdout or b"").decode("utf-8", "replace")
        return 124, (out or "") + "\nTIMEOUT after %ss" % timeout, time.time() - t0


# --------------------------------------------------------------------------
# grep gate: no admitted proofs, axioms or switched-off checks anywhere
# --------------------------------------------------------------------------
def strip_coq_comments(text):
    out, depth, i = [], 0, 0
    while i < len(text):
        if text.startswith("(*", i):
            depth += 1; i += 2
        elif text.startswith("*)", i) and depth:
            depth -= 1; i += 2
        else:
            if depth == 0:
                out.append(text[i])
            i += 1
    return "".join(out)


def grep_gate():
    bad = []
    for path in sorted(glob.glob(os.path.join(COQ, "**", "*.v"), recursive=True)):
        text = strip_coq_comments(open(path).read())
        # string literals cannot hide a vernacular command; check raw code
        for m in GATE_RE.finditer(text):
            bad.append("%s: %s" % (os.path.relpath(path, VERIF), m.group(0)))
        # Variable / Hypothesis outside a Section
        depth = 0
        for line in text.splitlines():
            s = line.strip()
            if re.match(r"^(Section|Module Type)\b", s):
                depth += 1
            elif re.match(r"^End\b", s) and depth:
                depth -= 1
            elif depth == 0 and re.match(r"^(Variable|Variables|Hypothesis|Hypotheses|Context)\b", s):
                bad.append("%s: %s outside a Section" % (os.path.relpath(path, VERIF), s.split()[0]))
    return bad


# --------------------------------------------------------------------------
# tables + build
# --------------------------------------------------------------------------
def regen_tables():
    """-> (ok, message).  Writes coq/gen/Tables.v only when the content changes."""
    out = os.path.join(COQ, "gen", "Tables.v")
    os.makedirs(os.path.join(COQ, "gen"), exist_ok=True)     # not tracked by git: absent in a fresh checkout
    rc, txt, _ = run([PY, os.path.join(VERIF, "harness", "extract_tables.py"), out], 120, env=child_env())
    msgs = [txt.strip()]
    ok = rc == 0
    # per-property extra table generators: harness/tables_<x>.py <out.v> -> coq/gen/Tables<X>.v
    for gen in sorted(glob.glob(os.path.join(VERIF, "harness", "tables_*.py"))):
        name = os.path.basename(gen)[len("tables_"):-3]
        out2 = os.path.join(COQ, "gen", "Tables%s.v" % name.upper())
        rc2, txt2, _ = run([PY, gen, out2], 120, env=child_env())
        msgs.append(txt2.strip()[-300:])
        ok = ok and rc2 == 0
    return ok, " | ".join(m for m in msgs if m)


def write_if_changed(path, text):
    """Used by table generators: keep mtime when nothing changed (incremental make)."""
    old = open(path).read() if os.path.exists(path) else None
    os.makedirs(os.path.dirname(path) or ".", exist_ok=True)
    if old != text:
        tmp = path + ".tmp%d" % os.getpid()
        with open(tmp, "w") as f:
            f.write(text)
        os.replace(tmp, path)
        return True
    return False


def gen_coqproject():
    """_CoqProject lists every .v file under model/ gen/ proofs/ props/ (sorted)."""
    lines = ["-Q model Model", "-Q gen Gen", "-Q proofs Proofs", "-Q props Props"]
    for d in ("model", "gen", "proofs", "props"):
        for f in sorted(glob.glob(os.path.join(COQ, d, "*.v"))):
            lines.append("%s/%s" % (d, os.path.basename(f)))
    return write_if_changed(os.path.join(COQ, "_CoqProject"), "\n".join(lines) + "\n")


def ensure_makefile():
    gen_coqproject()
    mk = os.path.join(COQ, "Makefile")
    cp = os.path.join(COQ, "_CoqProject")
    if not os.path.exists(mk) or os.path.getmtime(mk) < os.path.getmtime(cp):
        rc, txt, _ = run(["coq_makefile", "-f", "_CoqProject", "-o", "Makefile"], 120, cwd=COQ)
        if rc != 0:
            raise RuntimeError("coq_makefile failed: " + txt)


def coq_make(targets, timeout=1500):
    """Full .vo build of the given targets (paths relative to coq/)."""
    ensure_makefile()
    rc, txt, dt = run(["make", "-j%d" % max(2, adaptive_jobs()), "-k"] + list(targets), timeout, cwd=COQ)
    return rc == 0, txt, dt


def coqc_file(path, timeout=600):
    """Compile one file with coqc and return (ok, output)."""
    rc, txt, dt = run(["coqc"] + QFLAGS + [path], timeout, cwd=COQ)
    return rc == 0, txt, dt


def parse_assumptions(output):
    """Split coqc output of a props file into [(theorem?, text)] blocks."""
    blocks = []
    cur = None
    for line in output.splitlines():
        if line.startswith("Closed under the global context"):
            blocks.append("Closed under the global context")
            cur = None
        elif line.startswith("Axioms:"):
            cur = ["Axioms:"]
            blocks.append(cur)
        elif cur is not None and (line.startswith(" ") or line.strip() == "" or ":" in line):
            cur.append(line)
    return [b if isinstance(b, str) else "\n".join(b).strip() for b in blocks]


def count_obligations(vfile):
    text = strip_coq_comments(open(vfile).read())
    return re.findall(r"^\s*(?:Theorem|Lemma|Example|Corollary|Fact|Proposition)\s+([A-Za-z0-9_']+)", text, re.M)


def required_proof_files(vfile, seen=None):
    """Transitive closure of `From Proofs Require Import X Y.` starting at vfile."""
    seen = seen if seen is not None else []
    text = strip_coq_comments(open(vfile).read())
    for m in re.finditer(r"From\s+Proofs\s+Require\s+(?:Import|Export)\s+([^.]*)\.", text):
        for name in m.group(1).split():
            p = os.path.join(COQ, "proofs", name + ".v")
            if os.path.exists(p) and p not in seen:
                seen.append(p)
                required_proof_files(p, seen)
    return seen


# --------------------------------------------------------------------------
# Coq term printers for generated case files
# --------------------------------------------------------------------------
def c_hex(b: bytes) -> str:
    return '(hex "%s")' % b.hex()


def c_str(s: str) -> str:
    """Python str -> list of code points"""
    if all(32 <= ord(c) < 127 and c not in '"' for c in s):
        return '(asc "%s")' % s
    return '(hex6 "%s")' % "".join("%06x" % ord(c) for c in s)


def c_list(items) -> str:
    return "[" + "; ".join(items) + "]"


def c_bool(b) -> str:
    return "true" if b else "false"


def c_Z(z: int) -> str:
    if abs(z) < (1 << 62):
        return "(%d)%%Z" % z
    m = abs(z)
    return '(zhex %s "%s")' % ("true" if z < 0 else "false", m.to_bytes((m.bit_length() + 7) // 8, "big").hex())


def c_N(n: int) -> str:
    return "%d%%N" % n


def c_nat(n: int) -> str:
    return "%d%%nat" % n


def c_opt(x, f) -> str:
    return "None" if x is None else "(Some %s)" % f(x)


def c_pstr(s: str) -> str:
    return c_str(s)


def c_flt(x: float) -> str:
    import math
    if math.isnan(x):
        return "FNan"
    if math.isinf(x):
        return "(FInf %s)" % c_bool(x < 0)
    n, d = x.as_integer_ratio()
    return "(FFin %s %d%%positive)" % (c_Z(n), d)


def c_pv(v) -> str:
    """Python value -> Coq term of type Model.PyVal.pv (fail-closed)."""
    if v is None:
        return "PNone"
    if v is True or v is False:
        return "(PBool %s)" % c_bool(v)
    if isinstance(v, int):
        return "(PInt %s)" % c_Z(v)
    if isinstance(v, float):
        return "(PFloat %s)" % c_flt(v)
    if isinstance(v, str):
        return "(PStr %s)" % c_str(v)
    if isinstance(v, (bytes, bytearray)):
        return "(PBytes %s)" % c_hex(bytes(v))
    if isinstance(v, (list, tuple)):
        return "(PList %s)" % c_list([c_pv(x) for x in v])
    if isinstance(v, dict):
        items = []
        for k, x in v.items():
            if not isinstance(k, str):
                raise TypeError("c_pv: non-str dict key %r" % (k,))
            items.append("(%s, %s)" % (c_str(k), c_pv(x)))
        return "(PDict %s)" % c_list(items)
    raise TypeError("c_pv: cannot render %r" % (type(v),))


JCLS = ["DecodeError", "UnsupportedKeyUseError", "UnsupportedKeyAlgorithmError",
        "UnsupportedKeyOperationError", "InvalidKeyLengthError", "MissingKeyTypeError",
        "InvalidKeyTypeError", "InvalidKeyIdError", "InvalidExchangeKeyError",
        "InvalidEncryptedKeyError", "MissingAlgorithmError", "ConflictAlgorithmError",
        "UnsupportedAlgorithmError", "MissingEncryptionError", "BadSignatureError",
        "ExceededSizeError", "InvalidEncryptionAlgorithmError", "InvalidCEKLengthError",
        "InvalidClaimError", "MissingClaimError", "InsecureClaimError",
        "ExpiredTokenError", "InvalidTokenError", "InvalidPayloadError"]


def exn_class(e: BaseException) -> str:
    """Canonical exception class of the model's [exn] type."""
    import zlib
    from joserfc.errors import JoseError
    if isinstance(e, JoseError):
        n = type(e).__name__
        for c in type(e).__mro__:
            if c.__name__ in JCLS:
                n = c.__name__
                break
        return "EJose " + n if n in JCLS else "EJose ?" + n
    if isinstance(e, ValueError):
        return "EValue"
    if isinstance(e, TypeError):
        return "EType"
    if isinstance(e, KeyError):
        return "EKey"
    if isinstance(e, AttributeError):
        return "EAttr"
    if isinstance(e, IndexError):
        return "EIndex"
    if isinstance(e, AssertionError):
        return "EAssert"
    if isinstance(e, OverflowError):
        return "EOverflow"
    if isinstance(e, zlib.error):
        return "EZlib"
    return "ERuntime"


def c_exn(cls: str) -> str:
    if cls.startswith("EJose "):
        return "(EJose %s)" % cls.split(" ", 1)[1]
    return cls


def is_allowed_exn(e: BaseException) -> bool:
    from joserfc.errors import JoseError
    return isinstance(e, (JoseError, ValueError))


# --------------------------------------------------------------------------
# evaluation of generated cases inside Coq (vm_compute), sharded
# --------------------------------------------------------------------------
def adaptive_jobs(per_job_gb: float = 0.8) -> int:
    """Number of parallel coqc processes the machine can take right now (memory and load)."""
    try:
        avail = 0
        for line in open("/proc/meminfo"):
            if line.startswith("MemAvailable:"):
                avail = int(line.split()[1]) / 1048576.0
        by_mem = int(avail / per_job_gb)
        load = os.getloadavg()[0]
        ncpu = os.cpu_count() or 16
        by_load = ncpu if load < ncpu else max(2, int(ncpu * ncpu / (2 * load)))
        return max(1, min(16, by_mem, by_load))
    except Exception:
        return 8


class CoqEval:
    """cases: list of Coq terms of one type T; check: name of a Coq function
    T -> bool (true = model agrees with the recorded implementation
    behaviour).  Returns the indices of failing cases, and for those the
    model's own output printed by `show` (a Coq function T -> X)."""

    def __init__(self, imports: list[str], ctype: str, check: str, show: str | None = None,
                 shard: int = 400, preamble: str = "", max_chars: int = 60000):
        self.imports, self.ctype, self.check, self.show = imports, ctype, check, show
        self.shard, self.preamble, self.max_chars = shard, preamble, max_chars

    def run(self, cases: list[str], jobs: int = 16, timeout: int = 900):
        jobs = min(jobs, adaptive_jobs())
        # make sure every library the case files import is compiled against the current
        # dependencies (a stale .vo gives "inconsistent assumptions" errors)
        targets = []
        for imp in self.imports:
            for m in re.finditer(r"From\s+(Model|Proofs|Gen|Props)\s+Require\s+(?:Import|Export)\s+([^.]*)\.", imp):
                d = {"Model": "model", "Proofs": "proofs", "Gen": "gen", "Props": "props"}[m.group(1)]
                for name in m.group(2).split():
                    if os.path.exists(os.path.join(COQ, d, name + ".v")):
                        targets.append("%s/%s.vo" % (d, name))
        if targets:
            with BuildLock():
                ok, log, _ = coq_make(sorted(set(targets)))
            if not ok:
                return {"failing": [], "errors": [(0, "building the case-evaluation libraries failed:\n" + log[-2500:])],
                        "evaluated": 0, "shows": {}}
        tmp = tempfile.mkdtemp(prefix="verif-cases-")
        try:
            files = []
            bounds, start, size = [], 0, 0
            for i, c in enumerate(cases):
                if i > start and (i - start >= self.shard or size + len(c) > self.max_chars):
                    bounds.append((start, i)); start, size = i, 0
                size += len(c)
            if cases:
                bounds.append((start, len(cases)))
            for (si, sj) in bounds:
                chunk = cases[si:sj]
                name = "Cases%05d" % len(files)
                path = os.path.join(tmp, name + ".v")
                with open(path, "w") as f:
                    f.write("From Coq Require Import String List ZArith NArith.\nImport ListNotations.\n")
                    for imp in self.imports:
                        f.write(imp + "\n")
                    f.write("Open Scope N_scope.\n" + self.preamble + "\n")
                    f.write("Definition cases : list (%s) := [\n" % self.ctype)
                    f.write(";\n".join(chunk))
                    f.write("\n].\n")
                    f.write("Definition bad := failing %s cases.\n" % self.check)
                    f.write('Eval vm_compute in (length cases, bad).\n')
                    if self.show:
                        f.write("Eval vm_compute in (map %s (filter (fun c => negb (%s c)) cases)).\n" % (self.show, self.check))
                files.append((si, path))
            procs = []
            results = {}
            pending = list(files)
            running = []
            t0 = time.time()
            while pending or running:
                while pending and len(running) < jobs:
                    si, path = pending.pop(0)
                    # output goes to a file: a pipe would block coqc once 64 KB are pending
                    p = subprocess.Popen(["coqc"] + QFLAGS + [path], cwd=tmp, stdout=open(path + ".out", "w"),
                                         stderr=subprocess.STDOUT, text=True)
                    running.append((si, path, p))
                still = []
                for si, path, p in running:
                    if p.poll() is None:
                        still.append((si, path, p))
                    else:
                        results[si] = (p.returncode, open(path + ".out", errors="replace").read())
                running = still
                if time.time() - t0 > timeout:
                    for si, path, p in running:
                        p.kill()
                        results[si] = (124, "TIMEOUT")
                    running = []
                    for si, path in pending:
                        results[si] = (124, "TIMEOUT (not started)")
                    pending = []
                time.sleep(0.02)
            # a shard killed from outside (OOM killer, signal) leaves no Coq "Error": re-run it alone
            for si, path in files:
                rc, out = results[si]
                if rc != 0 and "Error" not in out and "TIMEOUT" not in out:
                    p = subprocess.run(["coqc"] + QFLAGS + [path], cwd=tmp, stdout=subprocess.PIPE,
                                       stderr=subprocess.STDOUT, text=True)
                    results[si] = (p.returncode, p.stdout)
            failing, shows, errors, evaluated = [], {}, [], 0
            for si, path in files:
                rc, out = results[si]
                if rc != 0:
                    errors.append((si, out[-2000:]))
                    continue
                flat = " ".join(out.split())
                m = re.search(r"= \((\d+)(?:%nat)?, \[([^\]]*)\]\)", flat)
                if not m:
                    errors.append((si, "unparsable coqc output: " + out[-1000:]))
                    continue
                evaluated += int(m.group(1))
                idx = [int(x.replace("%nat", "")) for x in m.group(2).split(";") if x.strip()]
                for i in idx:
                    failing.append(si + i)
                if idx and self.show:
                    rest = flat[m.end():]
                    shows[si] = rest[:4000]
            return {"failing": failing, "errors": errors, "evaluated": evaluated, "shows": shows}
        finally:
            shutil.rmtree(tmp, ignore_errors=True)


# --------------------------------------------------------------------------
# known findings, violations, evidence
# --------------------------------------------------------------------------
def load_known_findings():
    p = os.path.join(VERIF, "known_findings.json")
    if not os.path.exists(p):
        return []
    return json.load(open(p))["findings"]


class Ctx:
    def __init__(self, pid: str, tier: str, seed: int):
        self.pid, self.tier, self.seed = pid, tier, seed
        self.rng = random.Random("%s-%s" % (pid, seed))
        self.t0 = time.time()
        self.violations = []      # [(signature, description, replay dict)]
        self.known_hits = {}      # finding id -> description
        self.coverage = {"evaluations": 0, "distinct_nontrivial": 0, "samples": [],
                         "obligations": 0, "discharged": 0, "checker_cmd": "", "trusted_base": []}
        self.assumptions = []
        self.notes = []
        self.known = [f for f in load_known_findings() if f["property"] == pid and f.get("status", "open") == "open"]
        self.distinct = set()
        self.proof_ok = None

    @property
    def quick(self):
        return self.tier == "quick"

    def scale(self, quick: int, thorough: int) -> int:
        return quick if self.quick else thorough

    def note_case(self, key, nontrivial=True):
        self.coverage["evaluations"] += 1
        if nontrivial:
            self.distinct.add(hashlib.sha1(repr(key).encode()).digest()[:10])

    def sample(self, s, cap=8):
        if len(self.coverage["samples"]) < cap:
            self.coverage["samples"].append(s)

    def violation(self, signature: dict, description: str, replay: dict):
        """A witness that the property fails on the implementation (or a broken
        proof / correspondence).  Matched against known_findings.json."""
        for f in self.known:
            if all(signature.get(k) == v for k, v in f["signature"].items()):
                self.known_hits.setdefault(f["id"], f["description"])
                return
        self.violations.append((signature, description, replay))

    def finish(self) -> int:
        self.coverage["distinct_nontrivial"] = len(self.distinct)
        self.coverage.setdefault("rule", "cases are generated from one PRNG seeded with VERIF_SEED (structured mostly-valid stream, "
                                 "malformed stream, boundary cases; see input_distribution); a case counts as distinct and non-trivial "
                                 "when the harness marked it non-trivial (it reached past parsing / exercised the property's mechanism) "
                                 "and its canonical key (sha1 of the repr of the inputs) was not seen before in this run")
        if not self.coverage.get("samples"):
            self.coverage["samples"] = [{"note": "no sample recorded by this check"}]
        os.makedirs(os.path.join(OUT, "evidence"), exist_ok=True)
        os.makedirs(os.path.join(OUT, "replays"), exist_ok=True)
        for fid, desc in sorted(self.known_hits.items()):
            print("KNOWN-FINDING: property=%s %s (%s)" % (self.pid, desc, fid))
        shown = 0
        seen_sig = set()
        for sig, desc, replay in self.violations:
            key = json.dumps(sig, sort_keys=True)
            if key in seen_sig:
                continue
            seen_sig.add(key)
            if shown >= 10:
                continue
            shown += 1
            h = hashlib.sha1((key + json.dumps(replay, sort_keys=True, default=str)).encode()).hexdigest()[:12]
            path = os.path.join(OUT, "replays", "%s-%s.json" % (self.pid, h))
            with open(path, "w") as f:
                json.dump({"property": self.pid, "signature": sig, "description": desc, "seed": self.seed,
                           "tier": self.tier, "replay": replay}, f, indent=1, default=str)
            tail = " no-failing-input-found" if replay.get("no_failing_input_found") else ""
            print("VIOLATION property=%s replay=%s%s" % (self.pid, path, tail))
            print("  " + desc)
        ev = {
            "property_id": self.pid, "tier": self.tier, "seed": self.seed, "level": "proof",
            "coverage": self.coverage, "assumptions": self.assumptions,
            "wall_s": round(time.time() - self.t0, 2), "violations": len(seen_sig),
            "known_findings_hit": sorted(self.known_hits), "notes": self.notes,
        }
        with open(os.path.join(OUT, "evidence", "%s.json" % self.pid), "w") as f:
            json.dump(ev, f, indent=1, default=str)
        print("%s %s: evaluations=%d distinct=%d obligations=%d discharged=%d violations=%d known=%d wall=%.1fs" % (
            self.pid, self.tier, self.coverage["evaluations"], self.coverage["distinct_nontrivial"],
            self.coverage["obligations"], self.coverage["discharged"], len(seen_sig), len(self.known_hits),
            time.time() - self.t0))
        return 1 if seen_sig else 0

    # ---- proof step ---------------------------------------------------
    def prove(self, extra_targets=()):
        """Regenerate tables, build the closure of props/<pid>.v, recompile the
        props file to capture Print Assumptions.  Records obligations.
        Returns (ok, log)."""
        pid = self.pid
        props = os.path.join(COQ, "props", pid + ".v")
        with BuildLock():
            bad = grep_gate()
            if bad:
                self.proof_ok = False
                return False, "grep gate: " + "; ".join(bad)
            ok, msg = regen_tables()
            self.notes.append("tables: " + msg)
            if not ok:
                self.proof_ok = False
                return False, "table extraction failed: " + msg
            # composition layers (theorems that transfer this property's characterisation to the
            # pipeline models) are part of the obligations of the properties listed in COMPOSE.json
            compose = []
            try:
                cj = json.load(open(os.path.join(VERIF, "harness", "props", "COMPOSE.json")))
                compose = [n for n, pids in cj.items() if pid in pids and os.path.exists(os.path.join(COQ, "props", n + ".v"))]
            except Exception:
                compose = []
            ok, log, dt = coq_make(["props/%s.vo" % pid] + ["props/%s.vo" % n for n in compose] + list(extra_targets))
            if not ok:
                self.proof_ok = False
                return False, log
            # force recompilation of the props file itself to capture its output
            ok, out, dt2 = coqc_file(props)
        names = count_obligations(props)
        closure = required_proof_files(props)
        for n in compose:
            cp_ = os.path.join(COQ, "props", n + ".v")
            names += ["%s.%s" % (n, x) for x in count_obligations(cp_)]
            for q in required_proof_files(cp_):
                if q not in closure:
                    closure.append(q)
        lemma_names = []
        for p in closure:
            lemma_names += count_obligations(p)
        self.coverage["obligations"] = len(names) + len(lemma_names)
        self.coverage["discharged"] = (len(names) + len(lemma_names)) if ok else 0
        self.coverage["property_theorems"] = names
        self.coverage["lemma_files"] = [os.path.relpath(p, VERIF) for p in closure]
        self.coverage["checker_cmd"] = ("cd /verif/coq && make props/%s.vo && coqc <Q flags> props/%s.v  "
                                        "(full .vo build, Coq 8.16.1 kernel; coqchk -o in the thorough tier)" % (pid, pid))
        blocks = parse_assumptions(out)
        self.coverage["print_assumptions"] = blocks
        tb = ["Coq 8.16.1 kernel (coqc, vm_compute; no native_compute)",
              "harness/extract_tables.py (table translator) and the Python correspondence harness",
              "hand-written Gallina model in coq/model tied to /repo by differential execution"]
        axioms = sorted({l.strip() for b in blocks if b.startswith("Axioms:") for l in b.splitlines()[1:] if l.strip()})
        if axioms:
            tb.append("axioms reported by Print Assumptions: " + " | ".join(axioms))
        else:
            tb.append("Print Assumptions: every property theorem is closed under the global context (no axioms)")
        try:
            meta = json.load(open(os.path.join(VERIF, "harness", "props", self.pid.lower() + ".meta.json")))
            tb.append("modelled / assumed, not verified (from the check's meta file): " + meta.get("level_note", ""))
        except Exception:
            pass
        self.coverage["trusted_base"] = tb
        self.proof_ok = ok
        return ok, (out if not ok else log)

    def coqchk(self):
        """thorough tier: independent re-check of the compiled property file."""
        rc, out, dt = run(["coqchk", "-silent", "-o"] + QFLAGS + ["Props.%s" % self.pid], 1800, cwd=COQ)
        self.coverage["coqchk"] = {"rc": rc, "wall_s": round(dt, 1), "tail": out[-1500:]}
        return rc == 0, out
