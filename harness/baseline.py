#!/venv/bin/python
"""Run the pinned test suite of /repo (guard OFF) and compare with BASELINE.json."""
import json, subprocess, sys, os, tempfile, xml.etree.ElementTree as ET
base = json.load(open("/root/.vp/BASELINE.json"))
fd, path = tempfile.mkstemp(suffix=".xml"); os.close(fd)
env = dict(os.environ); env.pop("AUTHLIB_JOSERFC_VERIF", None); env.pop("PYTHONPATH", None)
subprocess.run(["/venv/bin/python", "-m", "pytest", "-q", "-p", "no:cacheprovider", "--timeout=900",
                "--continue-on-collection-errors", "--junitxml=" + path], cwd="/repo", env=env,
               stdout=subprocess.DEVNULL, stderr=subprocess.DEVNULL)
passed = set()
for tc in ET.parse(path).getroot().iter("testcase"):
    if not any(c.tag in ("failure", "error", "skipped") for c in tc):
        passed.add("%s::%s" % (tc.get("classname"), tc.get("name")))
os.unlink(path)
missing = [t for t in base["stable_pass"] if t not in passed]
print("baseline: %d/%d stable tests pass" % (len(base["stable_pass"]) - len(missing), len(base["stable_pass"])))
for m in missing:
    print("  NOT PASSING:", m)
sys.exit(1 if missing else 0)
