#!/venv/bin/python
"""Regenerate coq/gen/Tables.v from the joserfc that is importable now
(PYTHONPATH must point at /repo/src).  Fail-closed: anything this script does
not know how to render raises, and the caller reports a broken table tie.
Run in a fresh interpreter: it registers the draft algorithms at the end."""
import sys, hashlib, io


class TableError(Exception):
    pass


def cstr(s):
    if not isinstance(s, str):
        raise TableError(f"not a str: {s!r}")
    for ch in s:
        if ord(ch) < 32 or ord(ch) > 126 or ch == '"':
            raise TableError(f"unprintable char in {s!r}")
    return '"%s"%%string' % s


def cbool(b):
    if b is True:
        return "true"
    if b is False:
        return "false"
    raise TableError(f"not a bool: {b!r}")


def cobool(b):
    if b is None:
        return "None"
    return "(Some %s)" % cbool(b)


def cN(n):
    if isinstance(n, bool) or not isinstance(n, int) or n < 0:
        raise TableError(f"not a natural: {n!r}")
    return "%d%%N" % n


def coN(n):
    if n is None:
        return "None"
    return "(Some %s)" % cN(n)


def clist(items):
    return "[" + "; ".join(items) + "]"


PROBES = [
    "s", "http://x", "https://x", "", 1, 0, True, False, 1.5, None,
    [], ["a"], [1], ["a", 1], {}, {"a": 1}, b"x",
    "sig", "enc", "sign", ["sign", "verify"], ["sign", "bogus"],
]


def probe_mask(fn):
    mask = 0
    for i, v in enumerate(PROBES):
        try:
            fn(v)
            mask |= 1 << i
        except ValueError:
            pass
        except Exception as e:  # a validator escaping with another class
            mask |= 1 << (i + 32)
    return mask


def vkind(fn, ref_masks):
    """Identify a validator by behaviour, not by name."""
    import joserfc.registry as R
    clo = getattr(fn, "__closure__", None)
    fv = fn.__code__.co_freevars if hasattr(fn, "__code__") else ()
    if clo and "choices" in fv:
        cells = dict(zip(fv, (c.cell_contents for c in clo)))
        if set(fv) - {"choices", "is_list"}:
            raise TableError(f"in_choices closure has unknown free variables {fv}")
        choices = cells["choices"]
        is_list = cells.get("is_list", None)
        if not isinstance(choices, list) or is_list not in (None, True, False):
            raise TableError("in_choices closure is not (list, bool|None)")

        # independent reference of the documented behaviour, on the same choices
        def ref(v, c=list(choices), il=is_list):
            if il is not None and isinstance(v, list) is not il:
                raise ValueError
            if isinstance(v, list):
                if not all(x in c for x in v):
                    raise ValueError
            elif v not in c:
                raise ValueError
        if probe_mask(fn) != probe_mask(ref):
            return "(VUnknown %s)" % cN(probe_mask(fn))
        ctor = {None: "VChoices", False: "VChoiceStr", True: "VChoiceList"}[is_list]
        return "(%s %s)" % (ctor, clist(cstr(c) for c in choices))
    m = probe_mask(fn)
    for name, rm in ref_masks.items():
        if name.startswith("__"):
            continue
        if rm == m:
            return name
    return "(VUnknown %s)" % cN(m)


# expected probe masks of each validator kind, computed from an independent
# re-implementation of the documented validators (NOT from joserfc)
def _ref_validators():
    def is_str(v):
        if not isinstance(v, str):
            raise ValueError
    def is_url(v):
        is_str(v)
        if not v.startswith(("http://", "https://")):
            raise ValueError
    def is_int(v):
        if not isinstance(v, int) or isinstance(v, bool):   # a JSON integer; true/false are not
            raise ValueError
    def is_bool(v):
        if not isinstance(v, bool):
            raise ValueError
    def is_list_str(v):
        if not isinstance(v, list) or not all(isinstance(x, str) for x in v):
            raise ValueError
    def is_jwk(v):
        if not isinstance(v, dict):
            raise ValueError
    def none(v):
        raise ValueError
    def choices(v):
        c = ["sig", "enc"]
        if isinstance(v, list):
            if not all(x in c for x in v):
                raise ValueError
        elif v not in c:
            raise ValueError
    return {
        "VStr": probe_mask(is_str), "VUrl": probe_mask(is_url),
        "VInt": probe_mask(is_int), "VBool": probe_mask(is_bool),
        "VListStr": probe_mask(is_list_str), "VJwk": probe_mask(is_jwk),
        "VNone": probe_mask(none), "__choices_sig_enc": probe_mask(choices),
    }


def hash_name(h):
    """hashlib constructor / pyca hash class or instance -> name"""
    import hashlib as _h
    from cryptography.hazmat.primitives import hashes
    if h is None:
        return ""
    for n in ("sha1", "sha256", "sha384", "sha512"):
        if h is getattr(_h, n):
            return n
    if isinstance(h, type) and issubclass(h, hashes.HashAlgorithm):
        return h.name
    if isinstance(h, hashes.HashAlgorithm):
        return h.name
    raise TableError(f"unknown hash {h!r}")


def pad_name(p):
    from cryptography.hazmat.primitives.asymmetric import padding
    if p is None:
        return ""
    if isinstance(p, padding.PKCS1v15):
        return "PKCS1v15"
    if isinstance(p, padding.PSS):
        mgf = p._mgf
        if not isinstance(mgf, padding.MGF1):
            raise TableError("PSS mgf is not MGF1")
        sl = p._salt_length
        if not isinstance(sl, int):
            sl = type(sl).__name__ if not hasattr(sl, "name") else str(sl)
        return "PSS:mgf=%s:salt=%s" % (mgf._algorithm.name, sl)
    if isinstance(p, padding.OAEP):
        mgf = p._mgf
        if not isinstance(mgf, padding.MGF1):
            raise TableError("OAEP mgf is not MGF1")
        lab = p._label
        return "OAEP:mgf=%s:hash=%s:label=%s" % (
            mgf._algorithm.name, p._algorithm.name, "none" if lab is None else lab.hex())
    raise TableError(f"unknown padding {p!r}")


def hparams(reg, ref):
    out = []
    for name, hp in reg.items():
        out.append("{| hp_name := %s; hp_kind := %s; hp_required := %s |}" % (
            cstr(name), vkind(hp.validate, ref), cbool(hp.required)))
    return clist(out)


def kparams(reg, ref):
    out = []
    for name, kp in reg.items():
        out.append("{| kp_name := %s; kp_kind := %s; kp_private := %s; kp_required := %s |}" % (
            cstr(name), vkind(kp.validate, ref), cobool(kp.private), cbool(kp.required)))
    return clist(out)


def jws_row(a, ref):
    cls = type(a).__name__
    fam = {"NoneAlgModel": "none", "HMACAlgModel": "HMAC", "RSAAlgModel": "RSA",
           "ECAlgModel": "EC", "RSAPSSAlgModel": "PSS", "EdDSAAlgModel": "EdDSA"}.get(cls)
    if fam is None:
        raise TableError(f"unknown JWS alg class {cls}")
    h = hash_name(getattr(a, "hash_alg", None))
    curve = getattr(a, "curve", "")
    pad = pad_name(getattr(a, "padding", None))
    return ("{| ja_name := %s; ja_family := %s; ja_key_type := %s; ja_recommended := %s; "
            "ja_hash := %s; ja_curve := %s; ja_pad := %s |}") % (
        cstr(a.name), cstr(fam), cstr(a.key_type), cbool(a.recommended),
        cstr(h), cstr(curve), cstr(pad))


def jwe_alg_row(a, ref):
    cls = type(a).__name__
    fam = {"DirectAlgModel": "dir", "RSAAlgModel": "RSA", "AESAlgModel": "AESKW",
           "AESGCMAlgModel": "AESGCMKW", "ECDHESAlgModel": "ECDHES",
           "PBES2HSAlgModel": "PBES2", "ECDH1PUAlgModel": "ECDH1PU"}.get(cls)
    if fam is None:
        raise TableError(f"unknown JWE alg class {cls}")
    kw = getattr(a, "key_wrapping", None)
    return ("{| ea_name := %s; ea_family := %s; ea_direct := %s; ea_tag_aware := %s; "
            "ea_key_types := %s; ea_key_size := %s; ea_recommended := %s; ea_more := %s; "
            "ea_wrap := %s; ea_hash := %s; ea_p2c := %s; ea_pad := %s |}") % (
        cstr(a.name), cstr(fam), cbool(a.direct_mode), cbool(getattr(a, "tag_aware", False)),
        clist(cstr(k) for k in a.key_types), coN(a.key_size), cbool(a.recommended),
        hparams(a.more_header_registry, ref),
        cstr(kw.name if kw is not None else ""),
        cstr(hash_name(getattr(a, "hash_alg", None))),
        cN(getattr(a, "DEFAULT_P2C", 0)), cstr(pad_name(getattr(a, "padding", None))))


def jwe_enc_row(e, ref):
    cls = type(e).__name__
    fam = {"CBCHS2EncModel": "CBCHS", "GCMEncModel": "GCM", "ChaCha20EncModel": "ChaCha"}.get(cls)
    if fam is None:
        raise TableError(f"unknown JWE enc class {cls}")
    return ("{| ee_name := %s; ee_family := %s; ee_iv_size := %s; ee_cek_size := %s; "
            "ee_key_len := %s; ee_hash := %s; ee_recommended := %s |}") % (
        cstr(e.name), cstr(fam), cN(e.iv_size), cN(e.cek_size),
        cN(getattr(e, "key_len", 0)), cstr(hash_name(getattr(e, "hash_alg", None))),
        cbool(e.recommended))


def jwe_zip_row(z, ref):
    cls = type(z).__name__
    fam = {"DeflateZipModel": "DEF"}.get(cls)
    if fam is None:
        raise TableError(f"unknown JWE zip class {cls}")
    return "{| ez_name := %s; ez_family := %s; ez_recommended := %s |}" % (
        cstr(z.name), cstr(fam), cbool(z.recommended))


def generate():
    ref = _ref_validators()
    import joserfc.errors as E
    import joserfc.registry as R
    from joserfc import jws, jwe, jwk, jwt  # noqa: F401  (import-time registration)
    from joserfc.rfc7515.registry import JWSRegistry
    from joserfc.rfc7516.registry import JWERegistry
    from joserfc.rfc7797.registry import JWSRegistry as JWSRegistry7797
    from joserfc._keys import KeySet
    from joserfc.rfc7517.models import NativeKeyBinding, BaseKey
    from joserfc.rfc7518.oct_key import OctKey, POSSIBLE_UNSAFE_KEYS
    from joserfc.rfc7518.rsa_key import RSAKey
    from joserfc.rfc7518.ec_key import ECKey, ECBinding
    from joserfc.rfc8037.okp_key import OKPKey, PUBLIC_KEYS_MAP, PRIVATE_KEYS_MAP
    from joserfc.rfc7518 import jwe_zips

    o = io.StringIO()
    w = lambda s="": o.write(s + "\n")
    w("(* GENERATED by harness/extract_tables.py from /repo — do not edit *)")
    w("From Model Require Import Base TableTypes.")
    w("Open Scope N_scope.")
    w()
    # --- error classes
    names = [n for n, c in vars(E).items()
             if isinstance(c, type) and issubclass(c, E.JoseError) and c is not E.JoseError]
    w("Definition error_classes : list string := %s." % clist(cstr(n) for n in names))
    for n in names:
        c = getattr(E, n)
        if c.__mro__[1] is not E.JoseError:
            raise TableError(f"{n} is not a direct subclass of JoseError")
    if issubclass(E.JoseError, ValueError) or E.JoseError.__mro__[1] is not Exception:
        raise TableError("JoseError base changed")
    # --- validators by name (function-level identity of the registry helpers)
    w("Definition validator_kinds : list (string * vkind) := %s." % clist(
        "(%s, %s)" % (cstr(k), vkind(v, ref)) for k, v in R._value_validators.items()))
    # --- header registries
    w("Definition jws_header_registry : list hparam := %s." % hparams(R.JWS_HEADER_REGISTRY, ref))
    w("Definition jwe_header_registry : list hparam := %s." % hparams(R.JWE_HEADER_REGISTRY, ref))
    w("Definition jws_default_header_registry : list hparam := %s." % hparams(JWSRegistry.default_header_registry, ref))
    w("Definition jws7797_default_header_registry : list hparam := %s." % hparams(JWSRegistry7797.default_header_registry, ref))
    w("Definition jws_default_instance_header_registry : list hparam := %s." % hparams(jws.JWSRegistry().header_registry, ref))
    w("Definition jwe_default_instance_header_registry : list hparam := %s." % hparams(jwe.JWERegistry().header_registry, ref))
    w("Definition jws_default_instance_strict : bool := %s." % cbool(jws.JWSRegistry().strict_check_header))
    w("Definition jwe_default_instance_strict : bool := %s." % cbool(jwe.JWERegistry().strict_check_header))
    w("Definition jwe_default_verify_all : bool := %s." % cbool(jwe.JWERegistry().verify_all_recipients))
    # --- key registries
    w("Definition jwk_parameter_registry : list kparam := %s." % kparams(R.JWK_PARAMETER_REGISTRY, ref))
    if BaseKey.param_registry is not R.JWK_PARAMETER_REGISTRY:
        raise TableError("BaseKey.param_registry is not JWK_PARAMETER_REGISTRY")
    if BaseKey.operation_registry is not R.JWK_OPERATION_REGISTRY:
        raise TableError("BaseKey.operation_registry is not JWK_OPERATION_REGISTRY")
    for K in (OctKey, RSAKey, ECKey, OKPKey):
        if K.param_registry is not R.JWK_PARAMETER_REGISTRY or K.operation_registry is not R.JWK_OPERATION_REGISTRY:
            raise TableError(f"{K.__name__} overrides a registry")
        w("Definition value_registry_%s : list kparam := %s." % (K.key_type, kparams(K.value_registry, ref)))
        w("Definition thumbprint_digest_%s : string := %s." % (K.key_type, cstr(K.thumbprint_digest_method)))
    w("Definition key_types : list string := %s." % clist(cstr(k) for k in jwk.JWKRegistry.key_types))
    for k, c in jwk.JWKRegistry.key_types.items():
        if c.key_type != k:
            raise TableError("JWKRegistry.key_types inconsistent")
    w("Definition jwk_operation_registry : list kop := %s." % clist(
        "{| ko_name := %s; ko_use := %s; ko_private := %s |}" % (cstr(n), cstr(op.use), cobool(op.private))
        for n, op in R.JWK_OPERATION_REGISTRY.items()))
    w("Definition use_key_ops_registry : list (string * list string) := %s." % clist(
        "(%s, %s)" % (cstr(u), clist(cstr(x) for x in ops))
        for u, ops in NativeKeyBinding.use_key_ops_registry.items()))
    # --- curves
    rows = []
    for name, cv in ECBinding._dss_curves.items():
        inst = cv()
        if ECBinding._curves_dss.get(str(cv.name)) != name:
            raise TableError("EC curve tables inconsistent")
        rows.append("{| cv_name := %s; cv_native := %s; cv_bits := %s |}" % (cstr(name), cstr(cv.name), cN(inst.key_size)))
    if len(ECBinding._curves_dss) != len(ECBinding._dss_curves):
        raise TableError("EC curve tables inconsistent (sizes)")
    w("Definition ec_curves : list curve_row := %s." % clist(rows))
    if list(PUBLIC_KEYS_MAP) != list(PRIVATE_KEYS_MAP):
        raise TableError("OKP maps differ")
    w("Definition okp_curves : list (string * string * string) := %s." % clist(
        "(%s, %s, %s)" % (cstr(k), cstr(PUBLIC_KEYS_MAP[k].__name__), cstr(PRIVATE_KEYS_MAP[k].__name__))
        for k in PUBLIC_KEYS_MAP))
    # --- constants
    w("Definition zip_max_size : N := %s." % cN(jwe_zips.MAX_SIZE))
    w("Definition zip_gzip_head : list N := %s." % clist(cN(b) for b in jwe_zips.GZIP_HEAD))
    w("Definition possible_unsafe_keys : list (list N) := %s." % clist(
        clist(cN(b) for b in p) for p in POSSIBLE_UNSAFE_KEYS))

    def dump_registries(suffix):
        w("Definition jws_alg_table%s : list jws_alg_row := %s." % (
            suffix, clist(jws_row(a, ref) for a in JWSRegistry.algorithms.values())))
        for k, a in JWSRegistry.algorithms.items():
            if a.name != k:
                raise TableError("JWSRegistry key/name mismatch")
        w("Definition jws_recommended%s : list string := %s." % (suffix, clist(cstr(n) for n in JWSRegistry.recommended)))
        w("Definition jws_default_allowed%s : option (list string) := %s." % (
            suffix, "None" if jws.JWSRegistry().allowed is None else "(Some %s)" % clist(cstr(n) for n in jws.JWSRegistry().allowed)))
        from joserfc.rfc7515 import registry as r7515
        w("Definition jws_default_registry_allowed%s : option (list string) := %s." % (
            suffix, "None" if r7515.default_registry.allowed is None else "(Some %s)" % clist(cstr(n) for n in r7515.default_registry.allowed)))
        w("Definition jwe_alg_table%s : list jwe_alg_row := %s." % (
            suffix, clist(jwe_alg_row(a, ref) for a in JWERegistry.algorithms["alg"].values())))
        w("Definition jwe_enc_table%s : list jwe_enc_row := %s." % (
            suffix, clist(jwe_enc_row(a, ref) for a in JWERegistry.algorithms["enc"].values())))
        w("Definition jwe_zip_table%s : list jwe_zip_row := %s." % (
            suffix, clist(jwe_zip_row(a, ref) for a in JWERegistry.algorithms["zip"].values())))
        for loc in ("alg", "enc", "zip"):
            for k, a in JWERegistry.algorithms[loc].items():
                if a.name != k or a.algorithm_location != loc:
                    raise TableError("JWERegistry key/name/location mismatch")
        if set(JWERegistry.algorithms) != {"alg", "enc", "zip"}:
            raise TableError("JWERegistry.algorithms has unexpected locations")
        w("Definition jwe_recommended%s : list string := %s." % (suffix, clist(cstr(n) for n in JWERegistry.recommended)))
        from joserfc.rfc7516 import registry as r7516
        w("Definition jwe_default_registry_allowed%s : option (list string) := %s." % (
            suffix, "None" if r7516.default_registry.allowed is None else "(Some %s)" % clist(cstr(n) for n in r7516.default_registry.allowed)))
        w("Definition keyset_algorithm_keys%s : list (string * list string) := %s." % (
            suffix, clist("(%s, %s)" % (cstr(a), clist(cstr(k) for k in ks)) for a, ks in KeySet.algorithm_keys.items())))

    dump_registries("")
    from joserfc.drafts.jwe_ecdh_1pu import register_ecdh_1pu
    from joserfc.drafts.jwe_chacha20 import register_chaha20_poly1305
    register_ecdh_1pu()
    register_chaha20_poly1305()
    dump_registries("_drafts")
    return o.getvalue()


def main():
    out = sys.argv[1]
    try:
        text = generate()
    except TableError as e:
        print("TABLE-ERROR: %s" % e)
        sys.exit(3)
    except Exception as e:
        print("TABLE-ERROR: %s: %s" % (type(e).__name__, e))
        sys.exit(3)
    try:
        old = open(out).read()
    except FileNotFoundError:
        old = None
    if old != text:
        with open(out, "w") as f:
            f.write(text)
        print("TABLES-CHANGED sha256=%s" % hashlib.sha256(text.encode()).hexdigest())
    else:
        print("TABLES-UNCHANGED sha256=%s" % hashlib.sha256(text.encode()).hexdigest())


if __name__ == "__main__":
    main()
