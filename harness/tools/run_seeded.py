#!/usr/bin/env python3
"""Run registered checks against one seeded change in a scratch worktree.
usage: run_seeded.py <seeded-id e.g. C05-1> [CHECK_ID ...]   (default: the property's own check)
Creates /tmp/seedrun-<id> (git worktree of /repo HEAD + patch) and a private copy of coq/,
runs ./check <ID> --tier quick with VERIF_REPO/VERIF_COQ/VERIF_OUT, prints exit codes and
VIOLATION lines, records the outcome in seeded/<id>/meta.json, removes the scratch dirs."""
import sys, os, subprocess, json, shutil, time
VERIF = os.path.dirname(os.path.dirname(os.path.dirname(os.path.abspath(__file__))))
sid = sys.argv[1]
checks = sys.argv[2:] or [sid.split("-")[0]]
tier = os.environ.get("SEED_TIER", "quick")
wt = "/tmp/seedrun-%s" % sid
coq = wt + "-coq"
out = wt + "-out"
def sh(cmd, **kw):
    return subprocess.run(cmd, shell=True, text=True, stdout=subprocess.PIPE, stderr=subprocess.STDOUT, **kw)
sh("git -C /repo worktree remove --force %s; rm -rf %s %s %s" % (wt, wt, coq, out))
r = sh("git -C /repo worktree add --detach %s HEAD && git -C %s apply %s/seeded/%s/patch.diff" % (wt, wt, VERIF, sid))
if r.returncode:
    print(r.stdout); sys.exit(2)
shutil.copytree(os.path.join(VERIF, "coq"), coq)
results = {}
try:
    for c in checks:
        t0 = time.time()
        env = dict(os.environ, VERIF_REPO=wt, VERIF_COQ=coq, VERIF_OUT=out)
        r = sh("cd %s && timeout 1800 ./check %s --tier %s" % (VERIF, c, tier), env=env)
        viol = [l for l in r.stdout.splitlines() if l.startswith("VIOLATION") or l.startswith("  ")]
        results[c] = {"exit": r.returncode, "wall_s": round(time.time() - t0, 1), "violation_lines": viol[:6]}
        print("== %s on %s: exit %d (%.0fs)" % (c, sid, r.returncode, time.time() - t0))
        for l in viol[:6]:
            print("   ", l[:300])
        if r.returncode not in (0, 1):
            print(r.stdout[-1500:])
finally:
    sh("git -C /repo worktree remove --force %s; rm -rf %s %s %s; git -C /repo worktree prune" % (wt, wt, coq, out))
mp = os.path.join(VERIF, "seeded", sid, "meta.json")
meta = json.load(open(mp)) if os.path.exists(mp) else {"property": None, "neutral": True}
det = meta.get("detected_by") or {}
det.update(results)
meta["detected_by"] = det
json.dump(meta, open(mp, "w"), indent=1)
