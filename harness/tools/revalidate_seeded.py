#!/usr/bin/env python3
"""Re-validate seeded changes against the CURRENT /repo HEAD (after fix: commits moved it).
usage: revalidate_seeded.py <worktree-slot> <id> [<id> ...]"""
import sys, os, subprocess, json, tempfile, xml.etree.ElementTree as ET
slot, ids = sys.argv[1], sys.argv[2:]
wt = "/tmp/reval-%s" % slot
base = json.load(open("/root/.vp/BASELINE.json"))
stable = set(base["stable_pass"])
env = dict(os.environ, PYTHONPATH=wt + "/src", PYTHONHASHSEED="0", PYTHONDONTWRITEBYTECODE="1")
def sh(cmd):
    return subprocess.run(cmd, shell=True, text=True, stdout=subprocess.PIPE, stderr=subprocess.STDOUT, env=env)
sh("git -C /repo worktree remove --force %s; rm -rf %s; git -C /repo worktree add --detach %s HEAD" % (wt, wt, wt))
head = sh("git -C /repo rev-parse --short HEAD").stdout.strip()
for sid in ids:
    d = "/verif/seeded/%s" % sid
    sh("git -C %s checkout -q -- . && git -C %s clean -fdq" % (wt, wt))
    r0 = sh("cd %s && timeout 900 /venv/bin/python demo.py" % d)
    a = sh("git -C %s apply %s/patch.diff" % (wt, d))
    res = {"id": sid, "head": head, "applies": a.returncode == 0, "demo_unchanged": r0.returncode}
    if a.returncode == 0:
        xml = tempfile.mktemp(suffix=".xml")
        t = sh("cd %s && /venv/bin/python -m pytest -q -p no:cacheprovider --timeout=900 --continue-on-collection-errors --junitxml=%s 2>&1 | tail -1" % (wt, xml))
        passed = set()
        for tc in ET.parse(xml).getroot().iter("testcase"):
            if not list(tc):
                passed.add("%s::%s" % (tc.get("classname"), tc.get("name")))
        os.unlink(xml)
        res["tests"] = t.stdout.strip()
        res["missing"] = sorted(stable - passed)
        r1 = sh("cd %s && timeout 900 /venv/bin/python demo.py" % d)
        res["demo_changed"] = r1.returncode
    res["valid"] = bool(res["applies"] and res["demo_unchanged"] == 0 and res.get("demo_changed") not in (0, None) and not res.get("missing"))
    print(json.dumps(res))
    if res["valid"]:
        mp = d + "/meta.json"
        m = json.load(open(mp))
        m["validated"]["revalidated_at_head"] = head
        m["validated"]["tests_summary"] = res["tests"]
        json.dump(m, open(mp, "w"), indent=1)
sh("git -C /repo worktree remove --force %s; git -C /repo worktree prune" % wt)
