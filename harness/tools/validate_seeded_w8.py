#!/usr/bin/env python3
"""Validate a seeded change delivered by a bug-seeding agent and, if it holds up,
store it under /verif/seeded/<id>/ (patch.diff, demo.py, note.md, meta.json).
usage: validate_seeded.py <NN> <k>    (reads /tmp/mut8/outNN/mut<k>.diff, demo<k>.py, note<k>.md; uses worktree /tmp/mut8/wtNN)"""
import sys, os, subprocess, json, shutil, re, xml.etree.ElementTree as ET, tempfile

NN, K = sys.argv[1], sys.argv[2]
wt = "/tmp/mut8/wt%s" % NN
out = "/tmp/mut8/out%s" % NN
diff = os.path.join(out, "mut%s.diff" % K)
demo = os.path.join(out, "demo%s.py" % K)
note = os.path.join(out, "note%s.md" % K)
base = json.load(open("/root/.vp/BASELINE.json"))
stable = set(base["stable_pass"])
env = dict(os.environ, PYTHONPATH=wt + "/src", PYTHONHASHSEED="0", PYTHONDONTWRITEBYTECODE="1")


def sh(cmd, **kw):
    return subprocess.run(cmd, shell=True, text=True, stdout=subprocess.PIPE, stderr=subprocess.STDOUT, env=env, **kw)


def tests():
    with tempfile.NamedTemporaryFile(suffix=".xml", delete=False) as f:
        xml = f.name
    r = sh("cd %s && /venv/bin/python -m pytest -q -p no:cacheprovider --timeout=900 --continue-on-collection-errors --junitxml=%s 2>&1 | tail -1" % (wt, xml))
    passed = set()
    try:
        for tc in ET.parse(xml).getroot().iter("testcase"):
            if not list(tc):
                passed.add("%s::%s" % (tc.get("classname"), tc.get("name")))
    finally:
        os.unlink(xml)
    return passed, r.stdout.strip()


def rundemo():
    r = sh("cd %s && timeout 600 /venv/bin/python %s" % (out, demo))
    return r.returncode, r.stdout[-1500:]


res = {"id": "C%s-%s" % (NN, int(K) + 14)}
sh("git -C %s checkout -- . && git -C %s clean -fdq" % (wt, wt))
rc0, o0 = rundemo()
res["demo_unchanged"] = rc0
a = sh("git -C %s apply %s" % (wt, diff))
res["applies"] = a.returncode == 0
if a.returncode == 0:
    p, summ = tests()
    res["tests_summary"] = summ
    res["missing_from_baseline"] = sorted(stable - p)
    rc1, o1 = rundemo()
    res["demo_changed"] = rc1
    res["demo_changed_out"] = o1[-600:]
sh("git -C %s checkout -- . && git -C %s clean -fdq" % (wt, wt))
ok = res.get("applies") and rc0 == 0 and res.get("demo_changed") not in (0, None) and not res.get("missing_from_baseline")
res["valid"] = bool(ok)
print(json.dumps(res, indent=1))
if ok:
    d = "/verif/seeded/C%s-%s" % (NN, int(K) + 14)
    os.makedirs(d, exist_ok=True)
    shutil.copy(diff, d + "/patch.diff")
    shutil.copy(demo, d + "/demo.py")
    if os.path.exists(note):
        shutil.copy(note, d + "/note.md")
    files = re.findall(r"^\+\+\+ b/(\S+)", open(diff).read(), re.M)
    meta = {"property": "C%s" % NN, "files": files,
            "needs_to_manifest": (open(note).read()[:1500] if os.path.exists(note) else ""),
            "validated": {"applies_with_git_apply": True, "baseline_tests_still_pass": True,
                          "tests_summary": res["tests_summary"], "demo_exit_unchanged_tree": rc0,
                          "demo_exit_changed_tree": res["demo_changed"],
                          "how": "harness/tools/validate_seeded.py: git apply in a scratch worktree, full pytest run compared with BASELINE.stable_pass via junit xml, demo run on both trees"},
            "origin": "independent sub-agent given only the property text and a scratch worktree",
            "detected_by": None}
    json.dump(meta, open(d + "/meta.json", "w"), indent=1)
