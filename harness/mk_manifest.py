#!/venv/bin/python
"""Writes /verif/MANIFEST.json from the per-property table below."""
import json, os, sys
sys.path.insert(0, os.path.dirname(os.path.abspath(__file__)))
VERIF = os.path.dirname(os.path.dirname(os.path.abspath(__file__)))

BASELINE = ("cd /repo && env -u AUTHLIB_JOSERFC_VERIF /venv/bin/python -m pytest -ra -q -p no:cacheprovider "
            "--timeout=900 --continue-on-collection-errors")

# id -> (technique, level text, level note, design ref)
P = {
 "C19": ("Coq proof of the codec model (round trip, injectivity, strictness, minimal/fixed-width integer forms) + differential correspondence model/implementation",
         "Machine-checked theorems (props/C19.v, closed under the global context) about a Gallina transcription of urlsafe_b64encode/urlsafe_b64decode (incl. CPython's strict a2b_base64 state machine), int_to_base64/base64_to_int and encode_int/decode_int, for all octet strings and all integers; the model is tied to /repo on every run by evaluating it with vm_compute on the inputs the implementation was run on (exhaustive short strings, every non-alphabet byte at every position, integers around powers of 256) and the property is also evaluated directly on the implementation.",
         "Trusted: Coq kernel, the hand transcription of CPython binascii (validated by the differential only), the Python harness. The JSON header round trip is checked on the implementation (json module not modelled in C19).",
         "DESIGN.md 5/C19"),
}

NOT_BUILT_REASON = "check not built yet (work in progress, see DESIGN.md section 9); no claim is made for this property in this commit"


def main():
    props = [json.loads(l) for l in open(os.path.join(VERIF, "properties.jsonl"))]
    checks, na = [], []
    for p in props:
        pid = p["id"]
        if pid in P:
            tech, text, note, ref = P[pid]
            checks.append({
                "property_id": pid,
                "quick_cmd": "./check %s --tier quick" % pid,
                "thorough_cmd": "./check %s --tier thorough" % pid,
                "evidence_file": "/verif/evidence/%s.json" % pid,
                "replay_cmd_template": "./check %s --replay {path}" % pid,
                "engine": "coq-proof+correspondence",
                "level_claimed": {"category": "proof", "text": text, "design_ref": ref},
                "level_note": note,
                "technique": tech,
            })
        else:
            na.append({"property_id": pid, "reason": NOT_BUILT_REASON})
    m = {
        "version": 1,
        "setup_cmd": "./setup.sh",
        "hooks": {
            "guard": "AUTHLIB_JOSERFC_VERIF",
            "enable": "checks export AUTHLIB_JOSERFC_VERIF=1 and PYTHONPATH=/repo/src; no source hook exists so far (primitives are intercepted by rebinding module-level names from the harness)",
            "baseline_off_cmd": BASELINE,
            "source_commits": [],
            "add_only": True,
        },
        "engines": [{
            "name": "coq-proof+correspondence", "path": "/verif/check",
            "serves_properties": [c["property_id"] for c in checks],
            "kind_free_text": "Coq 8.16.1 theorems over a hand-written Gallina model (coq/model, coq/proofs, coq/props) plus tables regenerated from /repo (coq/gen/Tables.v) and a differential correspondence run (model evaluated by vm_compute on the inputs the implementation ran on)",
        }],
        "checks": checks,
        "not_applicable": na,
        "notes": "All checks: ./check <ID> --tier quick|thorough. VERIF_SEED seeds the PRNG. See DESIGN.md and TRUSTED_BASE.md.",
    }
    with open(os.path.join(VERIF, "MANIFEST.json"), "w") as f:
        json.dump(m, f, indent=1)
    try:
        import jsonschema
        jsonschema.validate(m, json.load(open("/root/.vp/MANIFEST.schema.json")))
        print("MANIFEST valid:", len(checks), "checks,", len(na), "not claimed")
    except ImportError:
        print("MANIFEST written (jsonschema not available to validate)")


if __name__ == "__main__":
    main()
