#!/venv/bin/python
"""Writes /verif/MANIFEST.json from harness/props/c<nn>.meta.json (one per built check).
A property is claimed only when its harness module, meta file and props/C<nn>.v exist
and it is not listed in harness/props/UNCLAIMED.json (id -> reason)."""
import json, os, sys
sys.path.insert(0, os.path.dirname(os.path.abspath(__file__)))
VERIF = os.path.dirname(os.path.dirname(os.path.abspath(__file__)))

BASELINE = ("cd /repo && env -u AUTHLIB_JOSERFC_VERIF /venv/bin/python -m pytest -ra -q -p no:cacheprovider "
            "--timeout=900 --continue-on-collection-errors")
NOT_BUILT_REASON = "check not built yet (work in progress, see DESIGN.md section 9); no claim is made for this property in this commit"


def main():
    props = [json.loads(l) for l in open(os.path.join(VERIF, "properties.jsonl"))]
    unclaimed = {}
    up = os.path.join(VERIF, "harness", "props", "UNCLAIMED.json")
    if os.path.exists(up):
        unclaimed = json.load(open(up))
    checks, na = [], []
    for p in props:
        pid = p["id"]
        low = pid.lower()
        meta_p = os.path.join(VERIF, "harness", "props", low + ".meta.json")
        have = (os.path.exists(meta_p) and os.path.exists(os.path.join(VERIF, "harness", "props", low + ".py"))
                and os.path.exists(os.path.join(VERIF, "coq", "props", pid + ".v")))
        if pid in unclaimed:
            na.append({"property_id": pid, "reason": unclaimed[pid]})
        elif have:
            m = json.load(open(meta_p))
            checks.append({
                "property_id": pid,
                "quick_cmd": "./check %s --tier quick" % pid,
                "thorough_cmd": "./check %s --tier thorough" % pid,
                "evidence_file": "/verif/evidence/%s.json" % pid,
                "replay_cmd_template": "./check %s --replay {path}" % pid,
                "engine": "coq-proof+correspondence",
                "level_claimed": {"category": "proof", "text": m["level_text"], "design_ref": "DESIGN.md 5/%s and section 10" % pid},
                "level_note": m["level_note"],
                "technique": m["technique"],
            })
        else:
            na.append({"property_id": pid, "reason": NOT_BUILT_REASON})
    hooks_p = os.path.join(VERIF, "harness", "HOOKS.json")
    hooks_src = json.load(open(hooks_p)) if os.path.exists(hooks_p) else []
    m = {
        "version": 1,
        "setup_cmd": "./setup.sh",
        "hooks": {
            "guard": "AUTHLIB_JOSERFC_VERIF",
            "enable": "checks export AUTHLIB_JOSERFC_VERIF=1 and PYTHONPATH=/repo/src; primitives are intercepted by rebinding module-level names / wrapping singleton methods from the harness process (no source hook is required)",
            "baseline_off_cmd": BASELINE,
            "source_commits": hooks_src,
            "add_only": True,
        },
        "engines": [{
            "name": "coq-proof+correspondence", "path": "/verif/check",
            "serves_properties": [c["property_id"] for c in checks],
            "kind_free_text": "Coq 8.16.1 theorems over a hand-written Gallina model (coq/model, coq/proofs, coq/props) plus tables regenerated from /repo (coq/gen/Tables*.v) and a differential correspondence run (model evaluated by vm_compute on the inputs the implementation ran on), with a directed search on the implementation for a failing input",
        }],
        "checks": checks,
        "not_applicable": na,
        "notes": "All checks: ./check <ID> --tier quick|thorough. VERIF_SEED seeds the PRNG. See DESIGN.md (sections 4, 10) for the trusted base and the seeded-change results.",
    }
    with open(os.path.join(VERIF, "MANIFEST.json"), "w") as f:
        json.dump(m, f, indent=1)
    try:
        import jsonschema
        jsonschema.validate(m, json.load(open("/root/.vp/MANIFEST.schema.json")))
        print("MANIFEST valid:", len(checks), "checks,", len(na), "not claimed")
    except ImportError:
        print("MANIFEST written (jsonschema not available to validate)")


if __name__ == "__main__":
    main()
