"""C16: probe which defensive checks (guards of coq/model/C16Model.v) the tree under test has,
and write them to coq/gen/TablesC16.v.  Fail-closed: a probe that behaves in neither of the two
expected ways raises."""
import sys, os, json, base64, zlib, warnings
sys.path.insert(0, os.path.dirname(os.path.abspath(__file__)))
import lib
warnings.simplefilter("ignore")


def b64u(b):
    return base64.urlsafe_b64encode(b).rstrip(b"=")


def outcome(f):
    try:
        return ("ok", f())
    except BaseException as e:  # noqa
        return ("err", e)


def probe(name, f, guarded, unguarded):
    r = outcome(f)
    g, u = guarded(r), unguarded(r)
    if g == u:
        raise RuntimeError("tables_c16: probe %s behaves unexpectedly: %r" % (name, r))
    return g


def is_err(cls):
    return lambda r: r[0] == "err" and isinstance(r[1], cls)


def main(out):
    from joserfc import jws, jwe, jwt, rfc7797, errors
    from joserfc.errors import DecodeError, MissingEncryptionError, UnsupportedAlgorithmError, InvalidKeyTypeError, InvalidPayloadError
    from joserfc.rfc7515 import compact as c15, json as j15
    from joserfc.rfc7516 import compact as c16, json as j16, message as m16
    from joserfc.rfc7516.models import FlattenedJSONEncryption
    from joserfc.rfc7797 import json as j77
    from joserfc.registry import check_crit_header
    from joserfc.rfc7518.ec_key import ECBinding, ECKey
    from joserfc.rfc8037.okp_key import OKPBinding, OKPKey
    from joserfc.rfc7518.jwe_algs import JWE_ALG_MODELS
    from joserfc.rfc7518.jwe_zips import DeflateZipModel
    from joserfc.rfc8037.jws_eddsa import EdDSA
    from joserfc.jwk import OctKey, RSAKey
    from joserfc import util
    import hmac, hashlib
    keys = json.load(open(os.path.join(os.path.dirname(os.path.abspath(__file__)), "props", "c16_keys.json")))
    ok = lambda r: r[0] == "ok"
    flags = []
    flags.append(probe("dict_jws_compact", lambda: c15.decode_header(b64u(b'"alg"')), is_err(DecodeError), ok))
    flags.append(probe("dict_jwe_compact", lambda: c16.extract_compact(b64u(b'"algenc"') + b"...."), is_err(DecodeError), ok))
    flags.append(probe("dict_jws_json", lambda: j15.extract_flattened_json({"payload": "", "protected": "MQ", "signature": ""}),
                       is_err(DecodeError), ok))
    flags.append(probe("dict_7797_json", lambda: j77._extract_json({"payload": "", "protected": "MQ", "signature": ""}),
                       is_err(DecodeError), is_err(TypeError)))
    flags.append(probe("dict_jwe_json", lambda: j16.extract_flattened_json({"protected": "MQ", "iv": "", "ciphertext": "", "tag": ""}),
                       is_err(DecodeError), ok))
    flags.append(probe("crit", lambda: check_crit_header({"crit": 0}), is_err(ValueError), is_err(TypeError)))

    def enc_missing():
        o = FlattenedJSONEncryption({}, None)
        o.bytes_segments = {"iv": b"", "tag": b"", "ciphertext": b""}
        return m16._perform_decrypt(o, jwe.default_registry)
    flags.append(probe("enc_present", enc_missing, is_err(MissingEncryptionError), is_err(KeyError)))
    flags.append(probe("algstr_jwe", lambda: jwe.default_registry.get_enc([]), is_err(UnsupportedAlgorithmError), is_err(TypeError)))
    flags.append(probe("algstr_jws", lambda: jws.JWSRegistry().get_alg([]), is_err(UnsupportedAlgorithmError), is_err(TypeError)))
    bad_ec = {"crv": "P-999", "x": "AA", "y": "AA"}
    a = probe("crv_ec_pub", lambda: ECBinding.import_public_key(dict(bad_ec)), is_err(ValueError), is_err(KeyError))
    b = probe("crv_ec_priv", lambda: ECBinding.import_private_key({**bad_ec, "d": "AA"}), is_err(ValueError), is_err(KeyError))
    flags.append(a and b)
    bad_okp = {"crv": "X999", "x": "AA"}
    a = probe("crv_okp_pub", lambda: OKPBinding.import_public_key(dict(bad_okp)), is_err(ValueError), is_err(KeyError))
    b = probe("crv_okp_priv", lambda: OKPBinding.import_private_key({**bad_okp, "d": "AA"}), is_err(ValueError), is_err(KeyError))
    flags.append(a and b)
    pbes = [m for m in JWE_ALG_MODELS if m.name == "PBES2-HS256+A128KW"][0]
    flags.append(probe("p2c", lambda: pbes.compute_derived_key(b"k", b"s", -1), is_err(ValueError), is_err(OverflowError)))
    flags.append(probe("zlib", lambda: DeflateZipModel().decompress(b"\xff"), is_err(DecodeError), is_err(zlib.error)))
    xkey = OKPKey.import_key(dict(keys["x25519"]))
    flags.append(probe("eddsa", lambda: EdDSA.verify(b"m", b"s" * 64, xkey), is_err(ValueError), is_err(AssertionError)))

    def kt7797():
        hs = b64u(b'{"alg":"HS256","b64":false,"crit":["b64"]}').decode()
        return rfc7797.deserialize_compact(hs + ".x." + b64u(bytes(32)).decode(), RSAKey.import_key(dict(keys["rsa"])), algorithms=["HS256"])
    flags.append(probe("kt7797", kt7797, is_err(InvalidKeyTypeError), is_err(TypeError)))
    flags.append(probe("ek_default",
                       lambda: j16.extract_flattened_json({"protected": "e30", "iv": "", "ciphertext": "", "tag": ""}).recipients[0].encrypted_key,
                       lambda r: r == ("ok", b""), lambda r: r == ("ok", None)))
    deep = b64u(b"[" * 100000)
    flags.append(probe("rec_header", lambda: util.json_b64decode(deep), is_err(ValueError), is_err(RecursionError)))

    def rec_claims():
        k = base64.urlsafe_b64decode(keys["oct32"]["k"] + "=")
        si = b64u(b'{"alg":"HS256"}') + b"." + deep
        tok = si + b"." + b64u(hmac.new(k, si, hashlib.sha256).digest())
        return jwt.decode(tok, OctKey.import_key(dict(keys["oct32"])))
    flags.append(probe("rec_claims", rec_claims, is_err(InvalidPayloadError), is_err(RecursionError)))
    # called directly: since the "use" validator refuses lists, import_key no longer reaches this with a list
    flags.append(probe("use_str", lambda: ECKey.binding.validate_dict_key_use_operations({"use": [], "key_ops": []}),
                       is_err(ValueError), is_err(TypeError)))
    # round 2: ECDH-1PU (draft) and sender keys
    from joserfc.drafts.jwe_ecdh_1pu import register_ecdh_1pu
    from joserfc.errors import InvalidExchangeKeyError
    register_ecdh_1pu()
    ec = ECKey.import_key(dict(keys["ec256"])); ecb = ECKey.import_key(dict(keys["ec256b"])); rsa = RSAKey.import_key(dict(keys["rsa"]))
    algs = ["ECDH-1PU", "A128GCM"]
    tok = jwe.encrypt_compact({"alg": "ECDH-1PU", "enc": "A128GCM"}, b"x", ec, algorithms=algs, sender_key=ecb)
    flags.append(probe("1pu_sender", lambda: jwe.decrypt_compact(tok, ec, algorithms=algs), is_err(DecodeError), is_err(AssertionError)))
    flags.append(probe("exchange_type", lambda: ec.exchange_derive_key(rsa), is_err(InvalidExchangeKeyError), is_err(AttributeError)))
    hdr = {"alg": "ECDH-1PU", "enc": "A128GCM", "epk": {k: keys["rsa"][k] for k in ("kty", "n", "e")}}
    tok2 = b64u(json.dumps(hdr).encode()).decode() + "." + tok.split(".", 1)[1]
    flags.append(probe("1pu_keytype", lambda: jwe.decrypt_compact(tok2, rsa, algorithms=algs, sender_key=ecb),
                       is_err(InvalidKeyTypeError), is_err(AttributeError)))
    # deep values: the message of InvalidKeyIdError must not format a kid that is not a str
    from joserfc.jwk import KeySet
    from joserfc.errors import InvalidKeyIdError
    dk = []
    for _ in range(20000):
        dk = [dk]
    flags.append(probe("kid_repr", lambda: KeySet([ec, rsa]).get_by_kid(dk), is_err(InvalidKeyIdError), is_err(RecursionError)))
    assert len(flags) == 23
    text = ("(* generated by harness/tables_c16.py from the tree under test: which guards of\n"
            "   model/C16Model.v (order of guards_list) the code has *)\n"
            "From Coq Require Import List Bool.\nImport ListNotations.\n"
            "Definition repo_guards_list : list bool := [%s].\n" % "; ".join("true" if f else "false" for f in flags))
    lib.write_if_changed(out, text)
    print("tables_c16: guards " + "".join("1" if f else "0" for f in flags))


if __name__ == "__main__":
    main(sys.argv[1])
