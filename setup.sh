#!/bin/bash
# Build the framework offline from files on disk: tables from /repo, then a
# full .vo build of the Coq development (no -vos/-vok quick modes).
set -e
cd "$(dirname "$0")"
export PYTHONPATH=/repo/src PYTHONHASHSEED=0 PYTHONDONTWRITEBYTECODE=1
/venv/bin/python - <<'PY'
import sys
sys.path.insert(0, "harness")
import lib
bad = lib.grep_gate()
if bad:
    print("GREP GATE FAILED:", *bad, sep="\n  "); sys.exit(1)
ok, msg = lib.regen_tables()
print(msg)
if not ok:
    sys.exit(1)
lib.gen_coqproject()
PY
cd coq
timeout 300 coq_makefile -f _CoqProject -o Makefile 2>/dev/null
timeout 3000 make -j16 2>&1 | grep -v "^Warning\|^COQDEP" | tail -40
test ${PIPESTATUS[0]} -eq 0
echo "setup ok"
