#!/bin/bash
# Build the framework offline from files on disk: tables from /repo, then a
# full .vo build (no -vos/-vok quick modes) of the Coq development: the
# closure of props/C<nn>.vo for every check claimed in MANIFEST.json, plus
# the case-evaluation modules.
set -e
cd "$(dirname "$0")"
export PYTHONPATH=/repo/src PYTHONHASHSEED=0 PYTHONDONTWRITEBYTECODE=1
/venv/bin/python - <<'PY'
import sys, json, os, glob
sys.path.insert(0, "harness")
import lib
bad = lib.grep_gate()
if bad:
    print("GREP GATE FAILED:", *bad, sep="\n  "); sys.exit(1)
ok, msg = lib.regen_tables()
print(msg)
if not ok:
    sys.exit(1)
lib.ensure_makefile()
claimed = [c["property_id"] for c in json.load(open("MANIFEST.json"))["checks"]]
targets = ["props/%s.vo" % c for c in claimed]
try:
    for n, pids in json.load(open("harness/props/COMPOSE.json")).items():
        if any(p in claimed for p in pids) and os.path.exists(os.path.join(lib.COQ, "props", n + ".v")):
            targets.append("props/%s.vo" % n)
except Exception as e:
    print("COMPOSE.json:", e)
for c in claimed:
    targets += [os.path.relpath(p, lib.COQ)[:-2] + ".vo" for p in glob.glob(os.path.join(lib.COQ, "model", c + "*.v"))]
ok, log, dt = lib.coq_make(sorted(set(targets)), timeout=3000)
print("\n".join(l for l in log.splitlines() if not l.startswith(("COQDEP", "Warning")))[-3000:])
print("built %d targets for %d claimed checks in %.0fs" % (len(set(targets)), len(claimed), dt))
sys.exit(0 if ok else 1)
PY
echo "setup ok"
